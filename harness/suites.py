"""Suite generators for the checker/verify family (C01-C04, C06, C09, C13, C14, C19).

Every suite appends operations to a World and records, per verify operation, what the *property*
says about it (computed from how the token was constructed, never from the model)."""
import itertools
import os
import json
import sys

sys.setrecursionlimit(20000)        # documents nested several hundred levels deep are built and walked recursively

import keys as K
from lib import hx
from world import seg, hs_sig

ALG_NAMES = ["none", "HS256", "HS384", "HS512", "RS256", "RS384", "RS512", "ES256", "ES384", "ES512",
             "PS256", "PS384", "PS512", "ES256K", "EdDSA"]
FAMILY, EC_BITS, HS_MIN, usable = K.FAMILY, K.EC_BITS, K.HS_MIN, K.usable


SIZED_RSA = [2054, 2056, 2058, 2062, 2064, 2066, 2068, 2070, 2072, 3072, 3074, 3078, 4096, 8192]


class KeyPool:
    """keys generated once per run"""

    def __init__(self, ctx, oracle, tier, want=None):
        spec = [("oct32", "oct", 32), ("rsa2048", "rsa", 2048), ("p256", "ec", "P-256"), ("ed25519", "okp", "ED25519"), ("ed448", "okp", "ED448")]
        if tier == "thorough":
            spec += [("oct64", "oct", 64), ("rsapss2048", "rsapss", 2048), ("p384", "ec", "P-384"), ("p521", "ec", "P-521"),
                     ("k256", "ec", "secp256k1"), ("oct65", "oct", 65), ("oct129", "oct", 129), ("oct200", "oct", 200)]
        if want:
            spec = [s for s in spec if s[0] in want] + [w for w in want if isinstance(w, tuple)]
        self.keys = {name: K.gen_key(kind, param, ctx.scratch) for name, kind, param in spec}
        # the key types the quick pool leaves out: used by a few suites with a lighter case set, so that a change confined
        # to RSA-PSS keys, P-384 / P-521 / secp256k1 or long HMAC keys is seen on every run and not only in the thorough tier
        self.rare = {}
        if tier != "thorough" and not want:
            self.rare = {name: K.gen_key(kind, param, ctx.scratch) for name, kind, param in
                         [("rsapss2048", "rsapss", 2048), ("p384", "ec", "P-384"), ("p521", "ec", "P-521"), ("k256", "ec", "secp256k1"), ("oct64", "oct", 64),
                          ("oct65", "oct", 65), ("oct129", "oct", 129), ("oct200", "oct", 200)]}
        # HMAC secrets are octets, whatever the last one is: keys that end like a line of text (LF, CR LF, blank, NUL, "=")
        if not want:
            import os as _os
            tails = {"oct48lf": (47, b"\n"), "oct70crlf": (68, b"\r\n"), "oct33sp": (32, b" "), "oct40nul": (39, b"\x00"), "oct64eq": (63, b"="), "oct66lflf": (64, b"\n\n")}
            (self.keys if tier == "thorough" else self.rare).update(
                {n_: K.Key("oct", k=_os.urandom(l_) + t_, bits=8 * (l_ + len(t_))) for n_, (l_, t_) in tails.items()})
        # RSA keys of sizes around the points where the signature gains an octet and its base64url text gains a character
        # or a quad (bits mod 8, octets mod 3), and the big ones; from harness/keycache (slow to make)
        self.sized = {}
        if not want:
            self.sized = {"rsa%d" % b: K.cached_key("rsa", b, ctx.scratch) for b in SIZED_RSA}
        self.oracle = oracle
        self.sig_cache = {}
        self.okid = {}

    def light(self, thorough=False):
        """the keys used with a lighter case set: (name, key, algorithms)"""
        out = [(n, k, k.admissible_algs()) for n, k in self.rare.items()]
        for n, k in self.sized.items():
            algs = k.admissible_algs()
            out.append((n, k, algs if thorough else [algs[0], algs[4]]))
        return out

    def sign(self, name, alg, msg):
        """valid raw signature (b64url text) by key `name` for `alg` over msg, or None"""
        key = self.keys[name] if name in self.keys else (self.rare[name] if name in self.rare else self.sized[name])
        if key.kind == "oct":
            if alg not in HS_MIN:
                return None
            return hs_sig(K.ALG_ORD[alg], key.k, msg)
        ck = (name, alg, msg)
        if ck not in self.sig_cache:
            if name not in self.okid:
                self.okid[name] = self.oracle.add_key(key.pem(True))
            s = self.oracle.sign(self.okid[name], alg, msg)
            self.sig_cache[ck] = None if s is None else K.b64u(s).encode()
        return self.sig_cache[ck]


HDR_VARIANTS = [(n, {"alg": n}) for n in ALG_NAMES] + [
    ("None", {"alg": "None"}), ("NONE", {"alg": "NONE"}), ("hs256", {"alg": "hs256"}), ("XX999", {"alg": "XX999"}),
    ("<missing>", {"typ": "JWT"}), ("<number>", {"alg": 1}), ("<null>", {"alg": None}),
    # names other registries use for the same primitives: not names of this library's algorithms
    ("Ed25519", {"alg": "Ed25519"}), ("Ed448", {"alg": "Ed448"}), ("ESP256", {"alg": "ESP256"}), ("ESP384", {"alg": "ESP384"}),
    ("RS256 ", {"alg": "RS256 "}), ("PS256-", {"alg": "PS256-"})]


def alg_attr_choices(key):
    """JWK alg attributes to try for a key: absent, the right ones, a wrong one of the family, cross-family, none, bogus"""
    adm = key.admissible_algs()
    out = [None] + adm[:2]
    fam_other = [a for a in ALG_NAMES if a in FAMILY and FAMILY[a] == key.kty and a not in adm]
    out += fam_other[:1]
    out += ["HS256" if key.kty != "oct" else "RS256", "none", "bogus"]
    seen, res = set(), []
    for a in out:
        if a not in seen:
            seen.add(a)
            res.append(a)
    return res


def alg_matrix(world, pool, tier, rng, sample=None, part=None):
    """C02/C03/C01: configured alg x key x header alg x route x signature class.
    Returns list of (op_index, meta) for the verify operations."""
    metas = []
    payload = seg({"sub": "x"})
    configs = []
    for cfg_alg in range(16):
        configs.append((cfg_alg, None, None))
        for name, key in pool.keys.items():
            for attr in alg_attr_choices(key):
                configs.append((cfg_alg, name, attr))
    routes = ["setkey", "cb-select", "cb-override"]
    cells = [(c, r) for c in configs for r in routes]
    if sample is not None and sample < len(cells):
        cells = rng.sample(cells, sample)
    if part is not None:
        cells = cells[part[0]::part[1]]
    # one key set per (key name, attr, public) on both sides
    loaded = {}
    nset = [1]

    def item_for(name, attr):
        if (name, attr) not in loaded:
            s = nset[0]
            nset[0] += 1
            key = pool.keys[name]
            loaded[(name, attr)] = world.add_key(s, key, private=False, alg_attr=attr)
        return loaded[(name, attr)]
    # a decoy key for the override route
    decoy = world.add_key(0, pool.keys["oct32"], private=True, alg_attr="HS256")
    for (cfg_alg, name, attr), route in cells:
        key = pool.keys[name] if name else None
        world.op("ck 0 new", tag="cfg")
        it = item_for(name, attr) if name else None
        if route == "setkey":
            world.op("ck 0 setkey %d%s" % (cfg_alg, (" %d %d" % it) if it else ""), tag="cfg")
        else:
            if route == "cb-override":
                world.op("ck 0 setkey 1 %d %d" % decoy, tag="cfg")
            prog = ("key:%d:%d" % it if it else "nokey") + ",alg:%d" % cfg_alg
            world.op("ck 0 setcb " + prog, tag="cfg")
        # the application's pin, in the property's terms
        attr_ord = 0 if attr is None else K.ALG_ORD.get(attr, 15)
        pin = cfg_alg if cfg_alg != 0 else attr_ord
        if key is None:
            admitted = cfg_alg == 0
        else:
            admitted = (attr_ord == 0 and cfg_alg != 0) or (attr_ord != 0 and (cfg_alg == 0 or cfg_alg == attr_ord))
        if route == "setkey":
            metas.append((len(world.ops) - 1, {"kind": "setkey", "expect_rc": 0 if admitted else 1, "cfg_alg": cfg_alg,
                                               "key": name, "attr": attr}))
        # the (key, alg) in force when the token is judged
        if route == "setkey" and not admitted:
            eff_key, eff_ok = None, True          # the refused setkey left the checker without key and alg
        else:
            eff_key, eff_ok = key, admitted
        for hname, hdr in HDR_VARIANTS:
            h = seg(hdr)
            msg = h + b"." + payload
            sigs = [("absent", b""), ("garbage", b"AAAA")]
            # a third segment that is there but holds no signature: white space, padding
            ws = (b"\n", b" ", b"\r\n", b"\t", b"=", b"==", b" \n")[(len(metas) + len(hname)) % 7]
            sigs.append(("blank %r" % ws, ws))
            hs_ord = K.ALG_ORD[hname] if hname in HS_MIN else 1
            sigs.append(("hmac-emptykey", hs_sig(hs_ord, b"", msg)))
            if key is not None:
                kb = key.k if key.kind == "oct" else key.pem(False)
                sigs.append(("hmac-pubkey" if key.kind != "oct" else "hmac-oct", hs_sig(hs_ord, kb, msg)))
                if hname in FAMILY and usable(key, hname):
                    v = pool.sign(name, hname, msg)
                    if v is not None:
                        sigs.append(("valid", v))
                elif hname not in FAMILY and K.ORD_ALG.get(pin) in FAMILY and usable(key, K.ORD_ALG[pin]):
                    # the header names no algorithm of the library, the signature is a good one under the pinned algorithm
                    v = pool.sign(name, K.ORD_ALG[pin], msg)
                    if v is not None:
                        sigs.append(("valid-under-pin", v))
            if route == "cb-override" and hname == "HS256":
                # a MAC under the key that setkey installed and the callback then replaced: the token is judged by the key in force
                sigs.append(("hmac-decoy", hs_sig(1, pool.keys["oct32"].k, msg)))
            for sname, sig in sigs:
                tok = msg + b"." + sig
                valid = sname == "valid" or (sname in ("hmac-oct", "hmac-decoy") and key is not None and key.kind == "oct" and hname in HS_MIN and usable(key, hname)
                                             and hs_sig(K.ALG_ORD[hname], key.k, msg) == sig)
                if not eff_ok:
                    may_accept = False
                elif eff_key is None:
                    may_accept = hname == "none" and sig == b""
                else:
                    may_accept = valid and K.ALG_ORD.get(hname, -1) == pin and pin not in (0, 15)
                metas.append((len(world.ops), {"kind": "verify", "cfg_alg": cfg_alg, "key": name, "attr": attr, "route": route,
                                               "hdr": hname, "sig": sname, "may_accept": may_accept,
                                               # a genuine token under the key and algorithm in force verifies, whichever route put them there
                                               "must_accept": bool(may_accept) and sname == "valid" and eff_key is not None,
                                               "has_key": eff_key is not None}))
                world.op("ck 0 verify " + hx(tok), tag="verify")
    return metas


def field(line, name):
    for t in line.split():
        if t.startswith(name + "="):
            return t[len(name) + 1:]
    return None


def judge(ctx, suite, world, metas, eo, do, crash, falsify, rule, exhaustive=False, key_prefix=None):
    """compare both sides on every compared op; apply the property's direct falsifier to the
    implementation's answers; record coverage"""
    prop = key_prefix or suite
    disagree, falsified, outs, samples = 0, 0, set(), []
    meta_at = dict(metas)
    for i, o in enumerate(world.ops):
        if eo[i] == "<crash>":
            continue
        if do is not None and o.cmp and eo[i] != do[i]:
            disagree += 1
            if disagree <= 2:
                ctx.violation("correspondence:" + prop, "model and implementation disagree on `%s`" % o.ex[:120],
                              replay_lines=context_lines(world, i), detail="impl:  %s\nmodel: %s\nmeta: %s" % (eo[i], do[i], meta_at.get(i)),
                              no_input=True)
        m = meta_at.get(i)
        if m is not None:
            outs.add((eo[i].split(" cb=")[0], json.dumps({k: v for k, v in m.items() if k not in ("tok",)}, sort_keys=True, default=str)[:200]))
            f = falsify(m, eo[i], eo)
            if f:
                falsified += 1
                if falsified <= 3:
                    ctx.violation("falsifier:" + prop, f, replay_lines=context_lines(world, i), detail="impl: %s\nmeta: %s" % (eo[i], m))
            if len(samples) < 4 and (i * 2654435761) % 1000 < 3:
                samples.append({"op": o.ex[:160], "impl": eo[i][:100], "model": (do[i][:100] if do else None), "meta": {k: str(v)[:40] for k, v in m.items()}})
    if crash:
        at, rc, err = crash
        ctx.violation("sanitizer:" + prop, "executor died (rc=%s) at op %d `%s`" % (rc, at, world.ops[at].ex[:100] if at < len(world.ops) else "<exit>"),
                      replay_lines=context_lines(world, at) if at < len(world.ops) else [o.ex for o in world.ops][-50:],
                      detail=err[-1800:])
    ctx.add_suite(suite, evaluations=len(metas), distinct_nontrivial=len(outs), rule=rule, exhaustive=exhaustive,
                  ops=len(world.ops), disagreements=disagree, falsified=falsified, samples=samples,
                  oracle_answers=dict(world.oracle_stats), oracle_rounds=world.need_rounds)


def context_lines(world, i, back=400):
    """the ops a replay needs: key loads and the configuration since the last `new` of the object"""
    o = world.ops[i]
    t = o.ex.split()
    obj = " ".join(t[:2]) if t and t[0] in ("ck", "bl", "jwks") else None
    start = i
    if obj:
        for j in range(i, max(-1, i - back), -1):
            if world.ops[j].ex.startswith(obj + " new"):
                start = j
                break
    pre = [x.ex for x in world.ops[:start] if x.tag == "key" or x.ex.startswith("clock") or x.ex.startswith("prov")]
    return pre + [x.ex for x in world.ops[start:i + 1]]


# =====================================================================================
# helpers shared by the remaining suites
# =====================================================================================
def mk_token(hdr, payload, sig=b""):
    return seg(hdr) + b"." + seg(payload) + b"." + sig


def signed_token(pool, name, alg, hdr_extra=None, payload=None):
    hdr = {"alg": alg, "typ": "JWT"}
    if hdr_extra:
        hdr.update(hdr_extra)
    msg = seg(hdr) + b"." + seg(payload if payload is not None else {"sub": "x"})
    return msg, pool.sign(name, alg, msg)


def py_lenient_b64(t):
    """bytes libjwt-style decoding yields, computed independently: text ahead of the first '=',
    either alphabet, unused trailing bits ignored; None when a foreign byte or a bad length occurs"""
    if len(t) % 4 == 1:
        return None
    body = t.split(b"=")[0]
    body = body.replace(b"+", b"-").replace(b"/", b"_")
    if any(c not in b"ABCDEFGHIJKLMNOPQRSTUVWXYZabcdefghijklmnopqrstuvwxyz0123456789-_" for c in body):
        return None
    n = len(body) - (1 if len(body) % 4 == 1 else 0)
    body = body[:n]
    import base64 as _b
    out = _b.urlsafe_b64decode(body + b"A" * (-len(body) % 4))
    keep = (len(body) * 6) // 8
    return out[:keep]


def c14_contract(out):
    rc, err, msg = field(out, "rc"), field(out, "err"), field(out, "msg")
    if rc is None:
        return None
    if (rc != "0") != (err == "1"):
        return "return value %s but error flag %s" % (rc, err)
    if err == "1" and msg != "1":
        return "error flag set with an empty message"
    if rc == "0" and (err != "0" or msg != "0"):
        return "success with flag=%s msg=%s" % (err, msg)
    return None


def falsify_accept(m, out, eo=None):
    """generic: an implementation accept where the property forbids one; a reject where it demands accept"""
    if m.get("kind") == "setkey":
        return None if out == "rc=%d" % m["expect_rc"] else "setkey(%s, key=%s attr=%s) returned %s, the documented table says %d" % (
            m["cfg_alg"], m["key"], m["attr"], out, m["expect_rc"])
    if m.get("kind") == "gen-strength":
        signed = field(out, "tok") not in (None, "NULL")
        if signed and not m["may_sign"]:
            return "a builder signed %s with a key below the algorithm's floor (%s)" % (m["alg"], m["key"])
        if not signed and m["may_sign"]:
            return "a builder refused %s with a key that meets the floor (%s)" % (m["alg"], m["key"])
        return None
    c = c14_contract(out)
    if c:
        return "C14 contract broken: " + c
    rc = field(out, "rc")
    if m.get("may_accept") is False and rc == "0":
        return "accepted a token the property forbids: %s" % {k: v for k, v in m.items() if k != "kind"}
    if m.get("must_accept") and rc != "0":
        return "rejected a token that must verify: %s" % {k: v for k, v in m.items() if k != "kind"}
    return None


def load_pool_keys(world, pool, private=False):
    """every pool key into its own set, without alg attribute; returns name -> (set, idx)"""
    out = {}
    for i, (name, key) in enumerate(pool.keys.items()):
        out[name] = world.add_key(10 + i, key, private=private, alg_attr=None)
    return out


# =====================================================================================
# C01: verify-sig -- systematic mutation of valid tokens
# =====================================================================================
def verify_sig(world, pool, tier, rng, provider="openssl"):
    metas = []
    items = load_pool_keys(world, pool)
    world.op("prov name " + hx(provider.encode()), tag="cfg")
    thorough = tier == "thorough"
    names = list(pool.keys)
    # the rarer key types with a lighter mutation set
    rs = 60
    for rname, rkey, ralgs in pool.light(thorough):
        rit = world.add_key(rs, rkey, private=(rkey.kind == "oct"), alg_attr=None)
        rs += 1
        for alg in ralgs:
            if provider == "gnutls" and alg == "ES256K":
                continue
            msg, sig = signed_token(pool, rname, alg, payload={"sub": "rare", "n": 2})
            if sig is None:
                continue
            raw = K.b64u_dec(sig)
            world.op("ck 0 new", tag="cfg")
            world.op("ck 0 setkey %d %d %d" % ((K.ALG_ORD[alg],) + rit), tag="cfg")
            muts = [("valid", msg + b"." + sig, True), ("pay-char", msg[:-1] + (b"A" if msg[-1:] != b"A" else b"B") + b"." + sig, False),
                    ("sig-removed", msg + b".", False), ("sig-trunc-end", msg + b"." + sig[:-2], False),
                    ("sig-zero-prefix", msg + b"." + K.b64u(b"\x00" + raw).encode(), False),
                    ("sig-zero-suffix", msg + b"." + K.b64u(raw + b"\x00").encode(), False),
                    ("sig-ext-end", msg + b"." + sig + b"A", False), ("sig-ext-end", msg + b"." + sig + b"AAAA", False),
                    ("sig-ext-end", msg + b"." + sig + b"Zm9v" * 1000, False), ("sig-ext-start", msg + b"." + b"AAAA" + sig, False),
                    ("sig-trunc-start", msg + b"." + sig[4:], False)]
            if rkey.kind == "oct":
                # a MAC made with only the leading part of a long key (one hash block, half of it) is a MAC under another key
                for cut in (32, 64, 128, len(rkey.k) - 1):
                    if cut < len(rkey.k) and rkey.k[cut:].strip(b"\x00"):      # (HMAC itself pads a short key with zero octets: not another key)
                        muts.append(("mac-under-key-prefix-%d" % cut, msg + b"." + hs_sig(K.ALG_ORD[alg], rkey.k[:cut], msg), False))
                muts.append(("mac-under-key-zero-extended", msg + b"." + hs_sig(K.ALG_ORD[alg], rkey.k + b"\x00", msg), False if len(rkey.k) >= 128 else None))
            for _ in range(6):
                b_ = rng.randrange(len(raw) * 8)
                r2 = bytearray(raw)
                r2[b_ // 8] ^= 1 << (b_ % 8)
                muts.append(("sig-bitflip", msg + b"." + K.b64u(bytes(r2)).encode(), False))
            for kind, tok, ok in muts:
                metas.append((len(world.ops), {"kind": "verify", "key": rname, "alg": alg, "mut": kind, "may_accept": ok, "must_accept": ok, "prov": provider}))
                world.op("ck 0 verify " + hx(tok), tag="verify")
    for name in names:
        key = pool.keys[name]
        for alg in key.admissible_algs():
            if provider == "gnutls" and alg == "ES256K":
                continue
            world.op("ck 0 new", tag="cfg")
            world.op("ck 0 setkey %d %d %d" % ((K.ALG_ORD[alg],) + items[name]), tag="cfg")
            msg, sig = signed_token(pool, name, alg, payload={"sub": "x", "n": 1})
            if sig is None:
                continue
            h, p = msg.split(b".")

            def emit(tok, kind, may, must=False):
                metas.append((len(world.ops), {"kind": "verify", "key": name, "alg": alg, "mut": kind, "may_accept": may,
                                               "must_accept": must, "prov": provider}))
                world.op("ck 0 verify " + hx(tok), tag="verify")
            emit(msg + b"." + sig, "valid", True, must=True)
            # header / payload: every position of short segments, sampled otherwise
            for segname, s_, rebuild in (("hdr", h, lambda x: x + b"." + p), ("pay", p, lambda x: h + b"." + x)):
                pos = range(len(s_)) if (thorough or len(s_) <= 48) else sorted(rng.sample(range(len(s_)), 32))
                for i in pos:
                    c = s_[i:i + 1]
                    r = b"A" if c != b"A" else b"B"
                    emit(rebuild(s_[:i] + r + s_[i + 1:]) + b"." + sig, segname + "-char", False)
            emit(p + b"." + h + b"." + sig, "swap-segments", False)
            emit(msg + b"." + b"", "sig-removed", False)
            # signature text: truncation / extension at both ends
            for n in range(1, 5):
                emit(msg + b"." + sig[:-n], "sig-trunc-end", False)
                emit(msg + b"." + sig[n:], "sig-trunc-start", False)
                emit(msg + b"." + sig + b"A" * n, "sig-ext-end", False)
                emit(msg + b"." + b"A" * n + sig, "sig-ext-start", False)
            if key.kind in ("rsa", "rsapss") and alg in ("RS256", "PS256", "PS512"):
                # an RSA signature is as long as the modulus: one whose first octet happens to be zero (1 in 256), with that octet
                # dropped, denotes the same integer but is not the algorithm's signature (RFC 8017 8.1.2 / 8.2.2)
                for i_ in range(4000):
                    m_ = h + b"." + seg({"sub": "x", "n": i_})
                    s_ = pool.oracle.sign(pool.okid[name], alg, m_) if name in pool.okid else None
                    if s_ is None:
                        break
                    if s_[0] == 0:
                        emit(m_ + b"." + K.b64u(s_).encode(), "valid (signature starts with a zero octet)", True, must=True)
                        emit(m_ + b"." + K.b64u(s_[1:]).encode(), "sig-leading-zero-octet-dropped", False)
                        emit(m_ + b"." + K.b64u(b"\x00" + s_).encode(), "sig-zero-prefix", False)
                        break
            if key.kind == "oct":
                # a MAC made with only the leading part of a long key (one hash block, half of it) is a MAC under another key
                for cut in (16, 32, 48, 64, 128, len(key.k) - 1):
                    if cut < len(key.k) and key.k[cut:].strip(b"\x00"):      # (HMAC itself pads a short key with zero octets: not another key)
                        emit(msg + b"." + hs_sig(K.ALG_ORD[alg], key.k[:cut], msg), "mac-under-key-prefix-%d" % cut, False)
                if len(key.k) >= 128:
                    emit(msg + b"." + hs_sig(K.ALG_ORD[alg], key.k + b"\x00", msg), "mac-under-key-zero-extended", False)
            # decoded signature: single-bit flips
            raw = K.b64u_dec(sig)
            bits = range(len(raw) * 8) if (thorough or len(raw) <= 66) else sorted(rng.sample(range(len(raw) * 8), 160))
            for b in bits:
                r2 = bytearray(raw)
                r2[b // 8] ^= 1 << (b % 8)
                emit(msg + b"." + K.b64u(bytes(r2)).encode(), "sig-bitflip", False)
            # decoded signature: zero octets added / removed, at the ends and in front of the second half
            # (an ECDSA r||s pair that keeps its numeric value under a lenient re-framing)
            half = len(raw) // 2
            for z in (1, 2, 16, 17, 34):
                emit(msg + b"." + K.b64u(bytes(z) + raw[:half] + bytes(z) + raw[half:]).encode(), "sig-zero-extended-halves", False)
                emit(msg + b"." + K.b64u(bytes(z) + raw).encode(), "sig-zero-prefix", False)
                emit(msg + b"." + K.b64u(raw + bytes(z)).encode(), "sig-zero-suffix", False)
            if len(raw) > 2 and raw[0] == 0 and raw[half] == 0:
                emit(msg + b"." + K.b64u(raw[1:half] + raw[half + 1:]).encode(), "sig-zero-stripped-halves", False)
            # an ECDSA signature in the ASN.1 form other ecosystems use (SEQUENCE { INTEGER r, INTEGER s }): not the JWS form
            if alg.startswith("ES") and len(raw) % 2 == 0:
                def _der_int(b_):
                    b_ = b_.lstrip(b"\x00") or b"\x00"
                    if b_[0] & 0x80:
                        b_ = b"\x00" + b_
                    return b"\x02" + bytes([len(b_)]) + b_
                body_ = _der_int(raw[:half]) + _der_int(raw[half:])
                der_ = b"\x30" + (bytes([len(body_)]) if len(body_) < 128 else b"\x81" + bytes([len(body_)])) + body_
                emit(msg + b"." + K.b64u(der_).encode(), "sig-asn1-der-form", False)
            # text malleability (same decoded bytes): outside C01 for public-key algs, must fail for HMAC
            alt = sig.replace(b"-", b"+").replace(b"_", b"/")
            if alt != sig:
                emit(msg + b"." + alt, "sig-altalphabet", None if alg not in HS_MIN else False)
            emit(msg + b"." + sig + b"=", "sig-padded", None if alg not in HS_MIN else False)
            # re-targeting: signatures made with other keys / algorithms
            for other in names:
                for a2 in pool.keys[other].admissible_algs():
                    if (other, a2) == (name, alg):
                        continue
                    s2 = pool.sign(other, a2, msg)
                    if s2 is not None and s2 != sig:
                        emit(msg + b"." + s2, "sig-other-key-or-alg", False)
            # header re-targeted to another algorithm, signature kept / recomputed under an attacker-computable key
            for a2 in ALG_NAMES:
                if a2 == alg:
                    continue
                h2 = seg({"alg": a2, "typ": "JWT"})
                m2 = h2 + b"." + p
                emit(m2 + b"." + sig, "hdr-retarget-keepsig", False)
                if a2 in HS_MIN:
                    kb = key.k if key.kind == "oct" else key.pem(False)
                    emit(m2 + b"." + hs_sig(K.ALG_ORD[a2], kb, m2), "hdr-retarget-hmac-pub", False)
                    emit(m2 + b"." + hs_sig(K.ALG_ORD[a2], b"", m2), "hdr-retarget-hmac-empty", False)
    return metas


def key_lifecycle_suite(world, pool, tier, rng):
    """C01/C13: keys come and go.  One keyring slot is loaded, used, freed and re-loaded with another key of
    the same type and size (so that the allocator hands out the same addresses again); after every
    re-load, tokens of the retired key must fail and tokens of the current key must verify -- under
    both providers.  The verdict may depend on the key's content only, never on its address or history."""
    metas = []
    rounds = 12 if tier == "thorough" else 6
    slot = 950
    # no quarantine: freed blocks are handed out again at once, as with an ordinary allocator, so that a
    # new key really lands on the retired key's address
    world.exec_env = {"ASAN_OPTIONS": "detect_leaks=1:exitcode=86:abort_on_error=0:allocator_may_return_null=1:"
                                      "quarantine_size_mb=0:thread_local_quarantine_size_kb=0"}
    for name, key in pool.keys.items():
        if key.kind == "oct":
            sib = K.Key("oct", k=os.urandom(len(key.k)), bits=key.bits)
        else:
            param = {"rsa": key.bits, "rsapss": key.bits}.get(key.kind) or {"Ed25519": "ED25519", "Ed448": "ED448"}.get(key.crv, key.crv)
            sib = K.gen_key(key.kind, param, world.ctx.scratch)
        alg = key.admissible_algs()[0]
        a = K.ALG_ORD[alg]
        toks = []
        for k in (key, sib):
            msg = seg({"alg": alg, "typ": "JWT"}) + b"." + seg({"sub": "lifecycle"})
            if k.kind == "oct":
                sg = hs_sig(a, k.k, msg)
            else:
                okid = pool.oracle.add_key(k.pem(True))
                raw = pool.oracle.sign(okid, alg, msg)
                sg = None if raw is None else K.b64u(raw).encode()
            toks.append(None if sg is None else msg + b"." + sg)
        if None in toks:
            continue
        for provider in ("openssl", "gnutls"):
            if alg == "ES256K" and provider == "gnutls":
                continue
            world.op("prov name " + hx(provider.encode()), tag="cfg")
            for r in range(rounds):
                cur = r % 2 if r < rounds - 2 else rng.randrange(2)
                world.set_count[slot] = 0
                it = world.add_key(slot, (key, sib)[cur], private=(key.kind == "oct"), alg_attr=None)
                world.op("ck 0 new", tag="cfg")
                world.op("ck 0 setkey %d %d %d" % ((a,) + it), tag="cfg")
                for which in (0, 1, 0, 1):
                    ok = which == cur
                    metas.append((len(world.ops), {"kind": "verify", "key": name + ("" if cur == 0 else "-sibling"), "alg": alg, "prov": provider,
                                                   "mut": "token of the %s key, round %d" % ("current" if ok else "retired", r),
                                                   "may_accept": True if ok else False, "must_accept": ok}))
                    world.op("ck 0 verify " + hx(toks[which]), tag="verify")
                world.op("ck 0 free", tag="cfg")
                # retire the key: alternately the item alone and the whole keyring
                world.op("jwks %d %s" % (slot, "free 0" if r % 3 else "drop"), "echo", cmp=False, tag="cfg")
    world.op("prov name " + hx(b"openssl"), tag="cfg")
    return metas


def long_inputs_suite(world, pool, tier, rng):
    """C14/C07/C02: error reporting and verdicts must not depend on how long the offending text is.
    Header alg names, token segments and JWK members of every length across the sizes of the
    library's fixed message buffers (256 bytes) and well beyond."""
    metas = []
    thorough = tier == "thorough"
    items = load_pool_keys(world, pool)
    world.op("ck 0 new", tag="cfg")
    world.op("ck 1 new", tag="cfg")
    world.op("ck 1 setkey %d %d %d" % ((K.ALG_ORD["HS256"],) + items["oct32"]), tag="cfg")
    lens = sorted(set(list(range(1, 20)) + list(range(180, 300)) + [300, 400, 511, 512, 513, 767, 768, 1000, 1023, 1024, 1025, 4096, 20000]
                      + ([rng.randrange(20, 180) for _ in range(20)] if not thorough else list(range(20, 180)) + list(range(300, 1100)))))
    pay = seg({"sub": "x"})
    for n in lens:
        for base in (b"", b"none", b"HS256", b"RS256"):
            name = base + b"x" * n
            h = seg(b'{"alg":"' + name + b'"}')
            for ck in (0, 1):
                tok = h + b"." + pay + b"."
                if ck == 1:
                    tok += hs_sig(K.ALG_ORD["HS256"], pool.keys["oct32"].k, h + b"." + pay)
                metas.append((len(world.ops), {"kind": "verify", "mut": "alg header of %d characters (%s + %d)" % (len(name), base.decode() or "-", n),
                                               "may_accept": False, "must_accept": False, "cfg": ck}))
                world.op("ck %d verify %s" % (ck, hx(tok)), tag="verify")
    # whole tokens of every size up to a few megabytes: genuine ones verify, damaged ones fail, the error state always tells
    # (the model is asked up to 100000 characters; beyond that the property's own rule judges the implementation's answer)
    for T in sizes([200, 1000, 4095, 4096, 4097, 65535, 65536, 65537, 99000, 262144, 1048575, 1048576, 1048577, 1048700] + ([3000000, 16777300] if thorough else [2500000]), lo=120):
        room = (T - 90) * 3 // 4
        body = seg(b'{"sub":"x","pad":"' + b"p" * max(0, room) + b'"}')
        h = seg({"alg": "HS256", "typ": "JWT"})
        sg = hs_sig(K.ALG_ORD["HS256"], pool.keys["oct32"].k, h + b"." + body)
        good = h + b"." + body + b"." + sg
        bad_sig = good[:-1] + (b"A" if good[-1:] != b"A" else b"B")
        bad_pay = h + b"." + body[:-2] + (b"AA" if body[-2:] != b"AA" else b"BB") + b"." + sg
        for what, tok, ck, ok in (("genuine", good, 1, True), ("last signature character changed", bad_sig, 1, False), ("payload changed", bad_pay, 1, False),
                                  ("genuine, checker without key", good, 0, False), ("genuine again", good, 1, True)):
            metas.append((len(world.ops), {"kind": "verify", "mut": "token of %d characters, %s" % (len(tok), what), "may_accept": ok, "must_accept": ok, "cfg": ck}))
            if len(tok) <= 100000:
                world.op("ck %d verify %s" % (ck, hx(tok)), tag="verify")
            else:
                world.op("ck %d verify %s" % (ck, hx(tok)), "echo", cmp=False, tag="verify")
    # long members in JWKs: every item is flagged with a message or usable
    slot = 960
    jw = []
    for n in lens:
        if n > 5000:
            continue
        v = "y" * n
        jw += [{"kty": v}, {"kty": "OKP", "crv": v, "x": "AAAA"}, {"kty": "EC", "crv": v, "x": "AAAA", "y": "AAAA"},
               {"kty": "oct", "k": "", "kid": v}, {"kty": "RSA", "n": "AQAB", "e": "AQAB", "alg": v}]
    if not thorough:
        jw = jw[::3] + [j for j in jw if 200 <= len(next(iter(sorted(j.values(), key=len, reverse=True)))) <= 270]
    for j in jw:
        world.op("jwks %d del" % slot, cmp=False, tag="cfg")
        world.load_doc(slot, json.dumps(j).encode(), "strn", tag="load")
        metas.append((len(world.ops), {"kind": "item", "doc": json.dumps(j)[:60] + "...", "longest": max(len(str(x)) for x in j.values())}))
        world.op("jwks %d item 0" % slot, tag="item")
    # a private OKP JWK that also carries the `x` of another key, an EC one with the `d` of another key: flagged with a message, or usable
    for kind_, param_ in (("okp", "ED25519"), ("okp", "ED448"), ("ec", "P-256")):
        ka_, kb_ = K.gen_key(kind_, param_, world.ctx.scratch), K.gen_key(kind_, param_, world.ctx.scratch)
        ja_, jb_ = ka_.jwk(private=True), kb_.jwk(private=True)
        mixes = [dict(ja_, x=jb_["x"])] if kind_ == "okp" else [dict(ja_, d=jb_["d"]), dict(ja_, x=jb_["x"])]
        for j_ in mixes:
            world.op("jwks %d del" % slot, cmp=False, tag="cfg")
            world.load_doc(slot, json.dumps(j_).encode(), "strn", tag="load")
            metas.append((len(world.ops), {"kind": "item", "doc": "private %s %s JWK with a member of another key" % (kind_, param_), "longest": 5}))
            world.op("jwks %d item 0" % slot, tag="item")
    # keys that share a key id, in one document and across two loads of the same document: whatever the set makes of them,
    # an item is flagged with a message or usable
    okey = pool.keys["oct32"]
    dup = json.dumps({"keys": [okey.jwk(extra={"kid": "same"}), okey.jwk(extra={"kid": "same"}), okey.jwk(extra={"kid": "other"})]}).encode()
    world.op("jwks %d del" % slot, cmp=False, tag="cfg")
    for rnd in range(2):
        world.load_doc(slot, dup, "strn", tag="load")
        for i in range(3 * (rnd + 1)):
            metas.append((len(world.ops), {"kind": "item", "doc": "keys sharing a key id, load %d" % (rnd + 1), "longest": 5}))
            world.op("jwks %d item %d" % (slot, i), tag="item")
    return metas


def falsify_long_inputs(m, out, eo=None):
    if m["kind"] == "item":
        f = dict(t.split("=", 1) for t in out.split() if "=" in t)
        if f.get("err") == "1" and f.get("emsg") != "1":
            return "JWK item flagged as errored with an EMPTY message (longest member %d characters): %s" % (m["longest"], m["doc"])
        if f.get("err") == "0" and f.get("emsg") == "1":
            return "JWK item carries a message without the error flag: %s" % m["doc"]
        return None
    return falsify_accept(m, out, eo)


# =====================================================================================
# C04: claims
# =====================================================================================
def spec_claims_pass(policy, claims, now):
    """the property's claim semantics, written from its statement"""
    for name, (on, leeway) in (("exp", policy["exp"]), ("nbf", policy["nbf"])):
        if on and name in claims:
            v = claims[name]
            if isinstance(v, bool) or not isinstance(v, int):
                return False
            if name == "exp" and not (v > now - leeway):
                return False
            if name == "nbf" and not (v <= now + leeway):
                return False
    unknown = False
    for name in ("iss", "sub", "aud"):
        want = policy[name]
        if isinstance(want, tuple) and want[0] == "refused":
            # the last claim_set for this name was refused (a value that is not UTF-8) while a check was configured or not:
            # a refused call never switches a check off, and cannot make any value other than the previous one acceptable
            prev = want[1]
            if prev is None:
                unknown = True      # nothing was configured before: the property does not say what a refused first call leaves
            elif name not in claims or not isinstance(claims[name], str) or claims[name].encode() != prev:
                return False
            else:
                unknown = True
        elif want is not None:
            if name not in claims or not isinstance(claims[name], str) or claims[name].encode() != want:
                return False
    return None if unknown else True


def claims_suite(world, pool, tier, rng):
    metas = []
    thorough = tier == "thorough"
    oct_item = world.add_key(20, pool.keys["oct32"], private=True, alg_attr="HS256")

    def emit(ck, claims, policy, now, signed, note, hdr_extra=None):
        # hdr_extra: members of the HEADER (what is judged is the payload: a claim that only the header carries is absent)
        if signed:
            msg = seg(dict({"alg": "HS256"}, **(hdr_extra or {}))) + b"." + seg(claims)
            tok = msg + b"." + pool.sign("oct32", "HS256", msg)
        else:
            tok = mk_token(dict({"alg": "none"}, **(hdr_extra or {})), claims)
        ok = spec_claims_pass(policy, claims, now)
        metas.append((len(world.ops), {"kind": "verify", "claims": json.dumps(claims)[:80], "policy": str(policy)[:120], "now": now,
                                       "signed": signed, "may_accept": ok, "must_accept": ok is True, "note": note}))
        world.op("ck %d verify %s" % (ck, hx(tok)), tag="verify")
    default = {"exp": (True, 0), "nbf": (True, 0), "iss": None, "sub": None, "aud": None}
    # --- thresholds: (value - threshold) in -2..2, leeways, clocks
    world.op("ck 0 new", tag="cfg")
    world.op("ck 1 new", tag="cfg")
    world.op("ck 1 setkey 0 %d %d" % oct_item, tag="cfg")
    leeways = [-1, 0, 1, 59, 2 ** 31, 2 ** 40]
    nows = [0, 1, 10 ** 9, 2 ** 31 - 1, 2 ** 31, 2 ** 40]
    for which in ("exp", "nbf"):
        for lw in leeways:
            for ck in (0, 1):
                world.op("ck %d leeway %s %d" % (ck, which, lw), tag="cfg")
            pol = dict(default)
            pol[which] = (lw >= 0, lw)
            for now in nows:
                world.op("clock %d" % now, tag="cfg")
                thr = now - lw if which == "exp" else now + lw
                for d in (-2, -1, 0, 1, 2):
                    for ck in (0, 1):
                        emit(ck, {which: thr + d}, pol, now, ck == 1, "threshold%+d" % d)
            for ck in (0, 1):
                world.op("ck %d leeway %s 0" % (ck, which), tag="cfg")
    # --- 64-bit extremes, negatives
    world.op("clock 1000", tag="cfg")
    for v in (-(2 ** 63), -(2 ** 62), -1, 0, 999, 1000, 1001, 2 ** 62, 2 ** 63 - 1):
        for which in ("exp", "nbf"):
            emit(0, {which: v}, default, 1000, False, "extreme")
    # --- every JSON type in place of each claim
    for which in ("exp", "nbf"):
        for v in (1.5, 1e300, "2000", "", True, False, None, [], [2000], {}, {"a": 1}):
            emit(0, {which: v}, default, 1000, False, "type")
            emit(1, {which: v}, default, 1000, True, "type")
    # --- the claims are the payload's: the same members in the header neither satisfy nor fail a check
    for which in ("iss", "sub", "aud"):
        for ck, signed in ((0, False), (1, True)):
            world.op("ck %d new" % ck, tag="cfg")
            if signed:
                world.op("ck %d setkey 0 %d %d" % ((ck,) + oct_item), tag="cfg")
            world.op("ck %d claimset %s %s" % (ck, which, hx(b"good")), tag="cfg")
            pol = dict(default)
            pol[which] = b"good"
            emit(ck, {}, pol, 1000, signed, "only the header carries the claim", hdr_extra={which: "good"})
            emit(ck, {which: "evil"}, pol, 1000, signed, "header and payload disagree", hdr_extra={which: "good"})
            emit(ck, {which: "good"}, pol, 1000, signed, "header and payload disagree, payload right", hdr_extra={which: "evil"})
    for which, hv, pv in (("exp", 5000, 10), ("nbf", 10, 5000), ("exp", 10, 5000)):
        world.op("ck 0 new", tag="cfg")
        emit(0, {which: pv}, default, 1000, False, "time claim also in the header", hdr_extra={which: hv})
        emit(0, {}, default, 1000, False, "time claim only in the header", hdr_extra={which: hv})
    world.op("ck 0 new", tag="cfg")
    world.op("ck 1 new", tag="cfg")
    world.op("ck 1 setkey 0 %d %d" % oct_item, tag="cfg")
    # --- string claims
    pairs = [("abc", "abc"), ("abc", "ab"), ("ab", "abc"), ("abc", "ABC"), ("", ""), ("", "a"), ("a", ""),
             ("é", "é"), ("é", "e"), ("a\u0001b", "a\u0001b"), ("x" * 300, "x" * 300), ("x" * 300, "x" * 299)]
    for which in ("iss", "sub", "aud"):
        for want, got in pairs:
            world.op("ck 0 new", tag="cfg")
            world.op("ck 0 claimset %s %s" % (which, hx(want.encode())), tag="cfg")
            pol = dict(default)
            pol[which] = want.encode()
            emit(0, {which: got, "exp": 2000}, pol, 1000, False, "str")
            for v in (1, None, [got], {"v": got}, True):
                emit(0, {which: v}, pol, 1000, False, "str-type")
            emit(0, {"exp": 2000}, pol, 1000, False, "str-missing")
    # escaped NUL in the payload: the payload itself does not parse
    world.op("ck 0 new", tag="cfg")
    world.op("ck 0 claimset iss " + hx(b"a"), tag="cfg")
    tok = seg({"alg": "none"}) + b"." + seg(b'{"iss":"a\\u0000b"}') + b"."
    metas.append((len(world.ops), {"kind": "verify", "note": "escaped-nul", "may_accept": False}))
    world.op("ck 0 verify " + hx(tok), tag="verify")
    # --- configuration histories: latest call wins (exhaustive up to a length)
    alphabet = [("claimset iss " + hx(b"a"), ("iss", b"a")), ("claimset iss " + hx(b"b"), ("iss", b"b")), ("claimdel iss", ("iss", None)),
                ("claimset aud " + hx(b"a"), ("aud", b"a")), ("claimdel aud", ("aud", None)),
                ("claimset iss " + hx(b"z\xfcrich"), ("iss", "REFUSED")), ("claimset aud " + hx(b"\xff\xfe"), ("aud", "REFUSED")),
                ("leeway exp -1", ("exp", (False, -1))), ("leeway exp 0", ("exp", (True, 0))), ("leeway exp 5", ("exp", (True, 5))),
                ("leeway nbf -1", ("nbf", (False, -1))), ("leeway nbf 0", ("nbf", (True, 0))), ("leeway nbf 5", ("nbf", (True, 5))),
                # a later value that extends / is extended by / empties the earlier one; spans that do not fit 32 bits
                ("claimset iss " + hx(b"ab"), ("iss", b"ab")), ("claimset iss -", ("iss", b"")), ("claimset aud " + hx(b"a.example"), ("aud", b"a.example")),
                ("leeway exp %d" % (2 ** 31 + 5), ("exp", (True, 2 ** 31 + 5))), ("leeway nbf %d" % (2 ** 32 + 5), ("nbf", (True, 2 ** 32 + 5))),
                # an argument that is not ONE of iss / sub / aud (several flags at once, none, a flag of another call) is refused
                # and changes no expectation
                ("claimdel 5", None), ("claimdel 3", None), ("claimset 5 " + hx(b"z"), None), ("claimdel 7", None), ("claimset 65 " + hx(b"z"), None),
                ("claimdel 0", None), ("claimdel 13", None)]
    maxlen = 3 if thorough else 2
    probes = [{"exp": 1000}, {"exp": 996}, {"exp": 1001}, {"nbf": 1000}, {"nbf": 1004}, {"nbf": 1006},
              {"iss": "a", "aud": "a"}, {"iss": "b"}, {"aud": "a"}, {}, {"iss": "ab", "aud": "a.example"}, {"iss": ""},
              {"exp": 1000 - 2 ** 31}, {"exp": 990 - 2 ** 31}, {"nbf": 1000 + 2 ** 32}, {"nbf": 1010 + 2 ** 32}]
    seqs = [s for n in range(1, maxlen + 1) for s in itertools.product(range(len(alphabet)), repeat=n)]
    extra = []
    for _ in range(2000 if thorough else 300):
        extra.append(tuple(rng.randrange(len(alphabet)) for _ in range(rng.randrange(maxlen + 1, 12))))
    for s in seqs + extra:
        world.op("ck 0 new", tag="cfg")
        pol = dict(default)
        for i in s:
            world.op("ck 0 " + alphabet[i][0], tag="cfg")
            if alphabet[i][1] is None:
                continue
            k, v = alphabet[i][1]
            if v == "REFUSED":
                prev = pol[k][1] if isinstance(pol[k], tuple) and pol[k] and pol[k][0] == "refused" else pol[k]
                v = ("refused", prev)
            pol[k] = v
        for pr in probes:
            emit(0, pr, pol, 1000, False, "history")
    return metas


# =====================================================================================
# C06: token-bytes
# =====================================================================================
def py_wellformed(tok):
    """does the string meet the property's three conditions?  (computed independently of the model)"""
    import jsonlib
    if tok.count(b".") < 2:
        return False
    h, rest = tok.split(b".", 1)
    p, _ = rest.split(b".", 1)
    hb = py_lenient_b64(h)
    pb = py_lenient_b64(p)
    if not hb or not pb:
        return False
    okh, th = jsonlib.loads(hb.split(b"\0")[0])
    okp, _ = jsonlib.loads(pb.split(b"\0")[0])
    if not okh or not okp or not isinstance(th, dict):
        return False
    return isinstance(th.get("alg"), str) and th["alg"] in ALG_NAMES


def token_bytes(world, pool, tier, rng, provider="openssl"):
    metas = []
    thorough = tier == "thorough"
    items = load_pool_keys(world, pool)
    if provider != "openssl":
        # the other provider runs its own length and framing checks on the decoded third segment before the library call:
        # third segments of every length around each algorithm's signature size, for every public-key algorithm
        world.op("prov name " + hx(provider.encode()), tag="cfg")
        for ci, (kname, key) in enumerate(pool.keys.items()):
            if key.kind == "oct":
                continue
            for alg in key.admissible_algs():
                if alg == "ES256K" and provider == "gnutls":
                    continue
                world.op("ck %d new" % ci, tag="cfg")
                world.op("ck %d setkey %d %d %d" % ((ci, K.ALG_ORD[alg]) + items[kname]), tag="cfg")
                msg = seg({"alg": alg}) + b".e30"
                good = pool.sign(kname, alg, msg)
                n0 = len(K.b64u_dec(good)) if good else 64
                lens = sorted(set([0, 1, 2, 3, 7, 8, 31, 32, 33, 47, 48, 49, 56, 57, 58, 63, 64, 65, 66, 113, 114, 115, 131, 132, 133, 255, 256, 257] +
                                  [max(0, n0 + d) for d in (-2, -1, 0, 1, 2)]))
                for n in lens:
                    for fill in (b"\x00", b"\xff", None):
                        raw = (bytes(rng.randrange(256) for _ in range(n)) if fill is None else fill * n)
                        tok = msg + b"." + K.b64u(raw).encode()
                        metas.append((len(world.ops), {"kind": "verify", "cfg": kname + "/" + alg + " under " + provider, "len": len(tok), "wellformed": True, "may_accept": False}))
                        world.op("ck %d verify %s" % (ci, hx(tok)), tag="verify")
        # a key the provider cannot load at all (GnuTLS knows no secp256k1) held as a PRIVATE key and named for an algorithm of its
        # size: every verify fails inside the provider's key import -- and gives back what it took (LeakSanitizer at exit)
        k256 = pool.keys.get("k256") or pool.rare.get("k256")
        if k256 is not None:
            for pi_, private in enumerate((True, False)):
                it = world.add_key(790 + pi_, k256, private=private, alg_attr=None)
                world.op("ck 60 new", tag="cfg")
                world.op("ck 60 setkey %d %d %d" % ((K.ALG_ORD["ES256"],) + it), tag="cfg")
                msg = seg({"alg": "ES256"}) + b".e30"
                for n in (0, 63, 64, 65, 96):
                    tok = msg + b"." + K.b64u(bytes(rng.randrange(256) for _ in range(n))).encode()
                    metas.append((len(world.ops), {"kind": "verify", "cfg": "k256 %s/ES256 under %s" % ("private" if private else "public", provider), "len": len(tok),
                                                   "wellformed": True, "may_accept": False}))
                    world.op("ck 60 verify %s" % hx(tok), tag="verify")
        world.op("prov name " + hx(b"openssl"), tag="cfg")
        return metas
    cfgs = [("nokey", None)] + [(n, n) for n in pool.keys] + [("nokey+claims", None), ("oct32+claims", "oct32"),
                                                              ("nokey+cb-refuses", None), ("oct32+cb-edits", "oct32")]
    for ci, (cname, kname) in enumerate(cfgs):
        world.op("ck %d new" % ci, tag="cfg")
        if kname:
            alg = pool.keys[kname].admissible_algs()[0]
            world.op("ck %d setkey %d %d %d" % ((ci, K.ALG_ORD[alg]) + items[kname]), tag="cfg")
        if cname.endswith("+claims"):       # every claim check the checker has is switched on
            for which in ("iss", "sub", "aud"):
                world.op("ck %d claimset %s %s" % (ci, which, hx(b"a")), tag="cfg")
        if cname.endswith("+cb-refuses"):      # every path out of verify with a callback installed (leaks are LSan's to report)
            world.op("ck %d setcb cget:json:-,ret:3" % ci, tag="cfg")
        if cname.endswith("+cb-edits"):
            world.op("ck %d setcb cset:int:%s:5:1,hdel:-,getalg" % (ci, hx(b"exp")), tag="cfg")
        if cname.endswith("+claims"):
            lw = 0 if kname else 60          # the unkeyed one with a leeway, so that claim +- leeway arithmetic meets extreme integers
            world.op("ck %d leeway exp %d" % (ci, lw), tag="cfg")
            world.op("ck %d leeway nbf %d" % (ci, lw), tag="cfg")
    toks = []
    alpha = b"AQew-_.=eyJ9"
    # exhaustive short strings over a 6-symbol alphabet
    small = b"e.=A-\x80"
    for n in range(1, 6 if thorough else 5):
        for t in itertools.product(small, repeat=n):
            toks.append(bytes(t))
    valid_h = [seg({"alg": "none"}), seg({"alg": "HS256"}), seg({"alg": "RS256", "typ": "JWT"}), seg(b'{"alg":"none"}\x00junk'),
               seg(b"[1]"), seg(b"{}"), seg(b'{"alg":5}'), seg(b"\xff\xfe"), b"", b"e30", b"e30=", b"e3="]
    valid_p = [seg({}), seg({"exp": 1}), seg(b"[]"), seg(b"1"), seg(b'{"a":"\\u0000"}'), seg(b"{"), b"", b"e30", b"e30==", b"!!!!"]
    # every registered claim with a value of every JSON type
    for cl in ("iss", "sub", "aud", "exp", "nbf", "iat", "jti"):
        for v in (b'"a"', b'"b"', b'""', b"42", b"-1", b"1.5", b"true", b"false", b"null", b"[]", b'["a"]', b'["a","b"]', b"{}", b'{"a":"a"}', b"99999999999",
                  b"9223372036854775807", b"-9223372036854775808", b"9223372036854775800", b"-9223372036854775800"):
            for pl in (seg(b'{"' + cl.encode() + b'":' + v + b"}"), seg(b'{"iss":"a","sub":"a","aud":"a","' + cl.encode() + b'":' + v + b"}")):
                toks.append(valid_h[0] + b"." + pl + b".")
                toks.append(valid_h[1] + b"." + pl + b".AAAA")
    # algorithm names are matched exactly: another letter case, a blank, a prefix or an extension of a name is no name --
    # unsigned, with a stray signature, and with a MAC that would be right if the name were read leniently
    for nm in ALG_NAMES:
        for var in {nm.upper(), nm.lower(), nm.title(), nm.swapcase(), nm + " ", " " + nm, nm[:-1], nm + "0", nm + "\t"} - {nm}:
            h_ = seg({"alg": var})
            toks.append(h_ + b".e30.")
            toks.append(h_ + b".e30.AAAA")
            if nm in HS_MIN and "oct32" in pool.keys:
                toks.append(h_ + b".e30." + hs_sig(K.ALG_ORD[nm], pool.keys["oct32"].k, h_ + b".e30"))
    sigs = [b"", b"AAAA", b"A", b".", b"..", b"=", b"\xff", b"AAAA.BBBB"]
    for h in valid_h:
        for p in valid_p:
            for s in sigs:
                toks.append(h + b"." + p + b"." + s)
                toks.append(h + b"." + p)
    for _ in range(20000 if thorough else 2500):
        n = rng.choice([rng.randrange(1, 16), rng.randrange(16, 200)])
        toks.append(bytes(rng.choice(alpha) for _ in range(n)))
    for _ in range(3000 if thorough else 400):
        toks.append(bytes(rng.randrange(1, 256) for _ in range(rng.randrange(1, 80))))
    # near-valid: real tokens with random edits
    base_tokens = []
    for name in pool.keys:
        alg = pool.keys[name].admissible_algs()[0]
        msg, sig = signed_token(pool, name, alg)
        if sig:
            base_tokens.append(msg + b"." + sig)
    base_tokens.append(mk_token({"alg": "none"}, {"a": 1}))
    for _ in range(20000 if thorough else 2500):
        t = bytearray(rng.choice(base_tokens))
        for _ in range(rng.randrange(1, 4)):
            op = rng.randrange(4)
            i = rng.randrange(len(t))
            if op == 0:
                t[i] = rng.randrange(1, 256)
            elif op == 1:
                del t[i]
            elif op == 2:
                t.insert(i, rng.choice(b".=A\x80"))
            else:
                t = t[:i]
            if not t:
                t = bytearray(b"A")
        toks.append(bytes(t))
    # long inputs
    for n in ([1000, 8191, 8192, 65536] if not thorough else [1000, 8191, 8192, 65536, 200000]):
        toks.append(b"A" * n)
        toks.append(seg({"alg": "none"}) + b"." + seg({"x": "y" * n}) + b".")
        toks.append(b"." * n)
    for t in toks:
        t = bytes(b for b in t if b != 0) or b"A"
        wf = py_wellformed(t)
        for ci in range(len(cfgs)):
            if len(t) > 2000 and ci > 1:
                continue
            metas.append((len(world.ops), {"kind": "verify", "cfg": cfgs[ci][0], "len": len(t), "wellformed": wf,
                                           "may_accept": None if wf else False}))
            world.op("ck %d verify %s" % (ci, hx(t)), tag="verify")
    return metas


# =====================================================================================
# C09: strength
# =====================================================================================
def strength(world, pool, tier, rng, extra_keys):
    """extra_keys: name -> Key (weak RSA, other curves) generated by the caller"""
    metas = []
    nset = [30]

    def fresh_set():
        nset[0] += 1
        return nset[0]
    # oct keys of every length 0..160 against HS256/384/512
    for n in range(0, 161):
        key = K.Key("oct", k=bytes(rng.randrange(256) for _ in range(n)), bits=8 * n) if n else None
        if key is None:
            continue       # an empty `k` is not importable (C07/C08); nothing to verify with
        it = world.add_key(fresh_set(), key, private=True, alg_attr=None)
        for alg in ("HS256", "HS384", "HS512"):
            world.op("ck 0 new", tag="cfg")
            world.op("ck 0 setkey %d %d %d" % ((K.ALG_ORD[alg],) + it), tag="cfg")
            msg = seg({"alg": alg}) + b"." + seg({"n": n})
            tok = msg + b"." + hs_sig(K.ALG_ORD[alg], key.k, msg)
            ok = n >= HS_MIN[alg]
            metas.append((len(world.ops), {"kind": "verify", "key": "oct%d" % n, "alg": alg, "may_accept": ok, "must_accept": ok}))
            world.op("ck 0 verify " + hx(tok), tag="verify")
    # keys one octet (or a few bits) under the floor whose `k` is spelled with the unused low bits of its last character
    # set: the text denotes the same 31 / 47 octets, the key is as weak as ever
    B64 = b"ABCDEFGHIJKLMNOPQRSTUVWXYZabcdefghijklmnopqrstuvwxyz0123456789-_"
    for n in (16, 31, 32, 46, 47, 49, 62, 64, 65):
        if n % 3 == 0:
            continue
        key = K.Key("oct", k=bytes(rng.randrange(256) for _ in range(n)), bits=8 * n)
        txt = K.b64u(key.k)
        spare = 4 if n % 3 == 1 else 2
        for add in sorted({1, (1 << spare) - 1}):
            last = B64.index(txt[-1].encode())
            alt = txt[:-1] + chr(B64[(last & ~((1 << spare) - 1)) | add])
            it = world.add_key(fresh_set(), key, private=True, alg_attr=None, jwk_override={"k": alt})
            for alg in ("HS256", "HS384", "HS512"):
                world.op("ck 0 new", tag="cfg")
                world.op("ck 0 setkey %d %d %d" % ((K.ALG_ORD[alg],) + it), tag="cfg")
                msg = seg({"alg": alg}) + b"." + seg({"n": n})
                ok = n >= HS_MIN[alg]
                for kk_ in (key.k, key.k + bytes([(add << (8 - spare)) & 0xff])):       # ... also under the key the lenient reading would give
                    tok = msg + b"." + hs_sig(K.ALG_ORD[alg], kk_, msg)
                    good = ok and kk_ is key.k
                    metas.append((len(world.ops), {"kind": "verify", "key": "oct%d, k ending in spare bits %d" % (n, add), "alg": alg, "may_accept": good, "must_accept": good}))
                    world.op("ck 0 verify " + hx(tok), tag="verify")
    # public-key: every key against every PK algorithm, token signed by the oracle where the family matches
    allk = dict(pool.keys)
    for n_, k_ in extra_keys.items():
        allk[n_ if n_ not in allk else n_ + "-extra"] = k_      # never shadow a pool key: signatures are made by name
    for name, key in allk.items():
        if key.kind == "oct":
            continue
        it = world.add_key(fresh_set(), key, private=False, alg_attr=None)
        for alg in ALG_NAMES[4:]:
            world.op("ck 0 new", tag="cfg")
            world.op("ck 0 setkey %d %d %d" % ((K.ALG_ORD[alg],) + it), tag="cfg")
            msg = seg({"alg": alg}) + b"." + seg({"k": name})
            sig = None
            if FAMILY[alg] == key.kty:
                if name not in pool.keys:
                    pool.keys[name] = key
                sig = pool.sign(name, alg, msg)
            ok = usable(key, alg) and sig is not None
            tok = msg + b"." + (sig if sig is not None else b"AAAA")
            metas.append((len(world.ops), {"kind": "verify", "key": name, "bits": key.bits, "alg": alg, "may_accept": ok, "must_accept": ok}))
            world.op("ck 0 verify " + hx(tok), tag="verify")
            if key.kind == "ec" and alg.startswith("ES") and not usable(key, alg):
                # what the holder of this key can compute for an algorithm of another size: ECDSA over the algorithm's digest, framed at
                # the key's own width and at the algorithm's
                if name not in pool.okid:
                    pool.okid[name] = pool.oracle.add_key(key.pem(True))
                for width in sorted({key.width, {"ES256": 32, "ES256K": 32, "ES384": 48, "ES512": 66}[alg]}):
                    fs = pool.oracle.sign_foreign(pool.okid[name], alg, msg, width) if width >= key.width else None
                    if fs is not None:
                        metas.append((len(world.ops), {"kind": "verify", "key": name + ", signature by this key over the algorithm's digest at %d octets" % width,
                                                       "bits": key.bits, "alg": alg, "may_accept": False, "must_accept": False}))
                        world.op("ck 0 verify " + hx(msg + b"." + K.b64u(fs).encode()), tag="verify")
    # an EC key is as big as its curve, however wide its coordinates are written (leading zero octets out to the width of
    # a bigger curve): P-256 stays a 256-bit key
    if "p256" in pool.keys:
        kp = pool.keys["p256"]
        for width in (33, 48, 66):
            ov = {"x": K.b64u(K.int_bytes(kp.x, width)), "y": K.b64u(K.int_bytes(kp.y, width))}
            itw = world.add_key(fresh_set(), kp, private=False, alg_attr=None, jwk_override=ov)
            for alg in ("ES256", "ES384", "ES512"):
                world.op("ck 0 new", tag="cfg")
                world.op("ck 0 setkey %d %d %d" % ((K.ALG_ORD[alg],) + itw), tag="cfg")
                msg = seg({"alg": alg}) + b"." + seg({"k": "p256 written %d octets wide" % width})
                sgn = pool.sign("p256", "ES256", msg)
                # under ES384 / ES512 also a P-256 signature stretched to the width the algorithm expects
                raw = K.b64u_dec(sgn)
                w2 = {"ES256": 32, "ES384": 48, "ES512": 66}[alg]
                stretched = K.b64u(bytes(w2 - 32) + raw[:32] + bytes(w2 - 32) + raw[32:]).encode()
                cands = [("its ES256 signature", sgn), ("that signature zero-extended to the algorithm's width", stretched)]
                if alg != "ES256":
                    # ... and what the holder of this P-256 key can compute for the stronger name: ECDSA over the algorithm's own
                    # digest, framed at the algorithm's width
                    if "p256" not in pool.okid:
                        pool.okid["p256"] = pool.oracle.add_key(kp.pem(True))
                    fs = pool.oracle.sign_foreign(pool.okid["p256"], alg, msg, w2)
                    if fs is not None:
                        cands.append(("an ECDSA signature by this key over the algorithm's digest, at the algorithm's width", K.b64u(fs).encode()))
                for what, sg in cands:
                    ok = alg == "ES256" and sg == sgn
                    md = {"kind": "verify", "key": "p256 with coordinates written %d octets wide, %s" % (width, what), "bits": 256, "alg": alg, "may_accept": ok, "must_accept": False}
                    metas.append((len(world.ops), md))
                    world.op("ck 0 verify " + hx(msg + b"." + sg), tag="verify")
    # one checker (and one builder) whose callback hands out the same key for a stronger algorithm next time: a key that was
    # big enough for the last token is measured again, against the algorithm of THIS token
    k32 = K.Key("oct", k=bytes(rng.randrange(256) for _ in range(32)), bits=256)
    it32 = world.add_key(fresh_set(), k32, private=True, alg_attr=None)
    world.op("ck 3 new", tag="cfg")
    world.op("bl 3 new", tag="cfg")
    for rep in range(2):
        for alg in ("HS256", "HS384", "HS256", "HS512", "HS256"):
            a = K.ALG_ORD[alg]
            world.op("ck 3 setcb key:%d:%d,alg:%d" % (it32 + (a,)), tag="cfg")
            msg = seg({"alg": alg}) + b"." + seg({"n": rep})
            ok = 32 >= HS_MIN[alg]
            metas.append((len(world.ops), {"kind": "verify", "key": "oct32 handed out by the callback, after tokens of other algorithms", "alg": alg, "may_accept": ok, "must_accept": ok}))
            world.op("ck 3 verify " + hx(msg + b"." + hs_sig(a, k32.k, msg)), tag="verify")
            world.op("bl 3 setcb key:%d:%d,alg:%d" % (it32 + (a,)), tag="cfg")
            metas.append((len(world.ops), {"kind": "gen-strength", "key": "oct32 handed out by the callback, after tokens of other algorithms", "alg": alg, "may_sign": ok}))
            world.op("bl 3 gen", tag="gen")
    if "p256" in pool.keys:
        itp = world.add_key(fresh_set(), pool.keys["p256"], private=False, alg_attr=None)
        for alg in ("ES256", "ES384", "ES256", "ES512"):
            a = K.ALG_ORD[alg]
            world.op("ck 3 setcb key:%d:%d,alg:%d" % (itp + (a,)), tag="cfg")
            msg = seg({"alg": alg}) + b"." + seg({"k": "p256"})
            sg = pool.sign("p256", "ES256", msg) if alg == "ES256" else b"AAAA"
            ok = alg == "ES256"
            metas.append((len(world.ops), {"kind": "verify", "key": "p256 handed out by the callback, after tokens of other algorithms", "alg": alg, "may_accept": ok, "must_accept": ok}))
            world.op("ck 3 verify " + hx(msg + b"." + sg), tag="verify")
    # a keyring that is loaded into more than once: a weak key arriving under the kid (and type) of a strong one that is
    # already there -- in either order -- is still a weak key, whichever item the application ends up holding
    strong = K.Key("oct", k=bytes(rng.randrange(256) for _ in range(32)), bits=256)
    weak = K.Key("oct", k=bytes(rng.randrange(256) for _ in range(16)), bits=128)
    pairs = [("oct", strong, weak, "HS256")]
    if "rsa1024" in extra_keys and "rsa2048" in pool.keys:
        pairs.append(("rsa", pool.keys["rsa2048"], extra_keys["rsa1024"], "RS256"))
        pool.keys.setdefault("rsa1024", extra_keys["rsa1024"])
    for kind, ks, kw, alg in pairs:
        for order in ((ks, kw), (kw, ks)):
            st = fresh_set()
            its = [world.add_key(st, k_, private=True, alg_attr=None, extra={"kid": "rotating"}) for k_ in order]
            msg = seg({"alg": alg, "kid": "rotating"}) + b"." + seg({"k": "rotation"})
            if kind == "oct":
                tok_w = msg + b"." + hs_sig(K.ALG_ORD[alg], kw.k, msg)
            else:
                sgw = pool.sign("rsa1024", alg, msg)
                tok_w = msg + b"." + (sgw if sgw else b"AAAA")
            for idx in (0, 1):
                world.op("ck 0 new", tag="cfg")
                world.op("ck 0 setkey %d %d %d" % (K.ALG_ORD[alg], st, idx), tag="cfg")
                metas.append((len(world.ops), {"kind": "verify", "key": "%s weak key loaded %s a strong one with the same kid, item %d" % (
                    kind, "after" if order[0] is ks else "before", idx), "alg": alg, "may_accept": False, "must_accept": False}))
                world.op("ck 0 verify " + hx(tok_w), tag="verify")
    return metas


# =====================================================================================
# C13 / C14: reuse and error contract
# =====================================================================================
def token_alphabet(pool):
    msg, sig = signed_token(pool, "oct32", "HS256", payload={"exp": 5000})
    valid = msg + b"." + sig
    badsig = msg + b"." + sig[:-2] + (b"AA" if not sig.endswith(b"AA") else b"BB")
    m2, s2 = signed_token(pool, "oct32", "HS256", payload={"exp": 10})
    expired = m2 + b"." + s2
    return [("valid", valid), ("badsig", badsig), ("expired", expired), ("nodot", b"abc"), ("onedot", b"abc.def"),
            ("badhdr", b"!!!!.e30." + sig), ("noalg", seg({"typ": "x"}) + b".e30."), ("badpay", seg({"alg": "HS256"}) + b".!!!!." + sig),
            ("unsigned", mk_token({"alg": "none"}, {})), ("NULL", None), ("empty", b"")]


def _cb_lines(step):
    """executor line and driver line of a configuration step (they differ for the callback-context steps)"""
    if step.startswith("setcb0 "):
        return step, "setcb " + step[7:].replace("ctx,", "ctxis0,").replace("setctxis0,", "setctx,")
    if step.startswith("setcb ") and "ctx," in step and "@ctx" not in step:
        return step, step.replace("ctx,", "ctxis1,").replace("setctxis1,", "setctx,")
    return step, step


def reuse_suite(world, pool, tier, rng):
    """C13/C14: every sequence over the token alphabet (+ error_clear) on one checker, each verdict
    compared with a fresh identically configured checker's"""
    metas = []
    it = world.add_key(40, pool.keys["oct32"], private=True, alg_attr="HS256")
    alpha = token_alphabet(pool) + [("errclr", "errclr")]
    world.op("clock 1000", tag="cfg")
    maxlen = 4 if tier == "thorough" else 3
    seqs = [s for n in range(1, maxlen + 1) for s in itertools.product(range(len(alpha)), repeat=n)]
    if tier != "thorough":
        seqs = [s for s in seqs if len(s) < 3] + rng.sample([s for s in seqs if len(s) == 3], 500)
    for _ in range(300 if tier == "thorough" else 40):
        seqs.append(tuple(rng.randrange(len(alpha)) for _ in range(rng.randrange(5, 60))))
    # --- configuration that changes between calls: the key comes from a callback that is later removed or replaced
    # a second key of the same type and algorithm: the keyring behind the callback changes between calls
    key2 = K.Key("oct", k=os.urandom(32), bits=256)
    it2 = world.add_key(41, key2, private=True, alg_attr="HS256")
    cfg_steps = [("setcb-key", "setcb key:%d:%d,alg:1" % it), ("setcb-none", "setcb -"), ("setcb-inert", "setcb getalg"),
                 ("setkey", "setkey 0 %d %d" % it), ("unsetkey", "setkey 0"), ("setcb-key2", "setcb key:%d:%d,alg:1" % it2),
                 ("setkey2", "setkey 0 %d %d" % it2), ("setcb-ctx-only", "setcb @ctx"),
                 # the context a callback is handed is the one that was configured (none here), every time -- also after a call in
                 # which the callback wrote something into the per-call config's ctx
                 ("setcb0-writes-ctx", "setcb0 ctx,setctx,key:%d:%d,alg:1" % it), ("setcb0-key2-reads-ctx", "setcb0 ctx,key:%d:%d,alg:1" % it2),
                 ("setcb-reads-ctx", "setcb ctx,setctx,key:%d:%d,alg:1" % it),
                 ("setkey-refused", "setkey 7 %d %d" % it),          # a context-only update keeps the callback; a refused setkey keeps the key
                 # claim expectations: one that is stored, one that is refused part-way (not UTF-8: the check stays on with nothing
                 # to compare with), the accessor, the delete -- the accessor and verify itself change nothing
                 ("claim-iss", "claimset iss " + hx(b"good")), ("claim-iss-refused", "claimset iss " + hx(b"\xff\xfe")),
                 ("claim-aud-refused", "claimset aud " + hx(b"a\xc0\xaf")), ("claimget-iss", "claimget iss"), ("claimget-aud", "claimget aud"),
                 ("claimdel-iss", "claimdel iss")]
    vmsg = alpha[0][1].rsplit(b".", 1)[0]
    valid2 = ("valid-under-key2", vmsg + b"." + hs_sig(1, key2.k, vmsg))
    toks2 = [alpha[0], alpha[1], alpha[8], valid2]      # valid, badsig, unsigned, valid under the second key
    hist = [h for n in range(2, 5) for h in itertools.product(range(len(cfg_steps) + len(toks2)), repeat=n)]
    # the same token presented again after the key behind it changed, in every way of changing it
    ks = {n: i for i, (n, _) in enumerate(cfg_steps)}
    v1, v2 = len(cfg_steps), len(cfg_steps) + 3
    forced_ctx = [(ks["setcb0-writes-ctx"], len(cfg_steps), len(cfg_steps), ks["setcb0-key2-reads-ctx"], len(cfg_steps) + 3, len(cfg_steps)),
                  (ks["setcb0-writes-ctx"], len(cfg_steps), ks["setkey2"], len(cfg_steps) + 3, len(cfg_steps)),
                  (ks["setcb-reads-ctx"], len(cfg_steps), len(cfg_steps), ks["setcb0-writes-ctx"], len(cfg_steps), len(cfg_steps))]
    forced = [(ks[a], t1, ks[b], t2) for a in ("setcb-key", "setkey", "setcb-key2", "setkey2") for b in ("setcb-key", "setkey", "setcb-key2", "setkey2", "setcb-none", "unsetkey", "setcb-ctx-only", "setkey-refused")
              for t1 in (v1, v2) for t2 in (v1, v2)]
    forced += [(ks["setkey"], ks[c_]) + (ks[g_],) * n_ + (v1,) * 4 for c_ in ("claim-iss", "claim-iss-refused", "claim-aud-refused")
               for g_ in ("claimget-iss", "claimget-aud") for n_ in (0, 1)]
    forced += [(ks["setkey"], ks["claim-iss-refused"], v1, ks["claimget-iss"], v1, ks["claimdel-iss"], v1, v1),
               (ks["setkey"], ks["claim-iss"], ks["claim-iss-refused"], v1, v1, ks["claim-iss"], v1, v1)]
    hist = forced_ctx + forced + rng.sample(hist, 1500 if tier == "thorough" else 300)
    for h in hist:
        world.op("ck 2 new", tag="cfg")
        applied = []
        for x in h:
            if x < len(cfg_steps):
                ex_, dr_ = _cb_lines(cfg_steps[x][1])
                world.op("ck 2 " + ex_, "ck 2 " + dr_, tag="cfg")
                applied.append(cfg_steps[x][1])
                continue
            name, tok = toks2[x - len(cfg_steps)]
            world.op("ck 3 new", tag="cfg")
            for l in applied:
                ex_, dr_ = _cb_lines(l)
                world.op("ck 3 " + ex_, "ck 3 " + dr_, tag="cfg")
            ref = len(world.ops)
            metas.append((ref, {"kind": "verify", "tok": name, "role": "fresh-reference"}))
            world.op("ck 3 verify " + hx(tok), tag="verify")
            metas.append((len(world.ops), {"kind": "verify", "tok": name, "role": "reused", "ref": ref,
                                           "history": "/".join(cfg_steps[y][0] if y < len(cfg_steps) else toks2[y - len(cfg_steps)][0] for y in h)[:100]}))
            world.op("ck 2 verify " + hx(tok), tag="verify")
    # reference verdicts from fresh checkers
    ref_at = {}
    for i, (name, tok) in enumerate(alpha):
        if name == "errclr":
            continue
        world.op("ck 1 new", tag="cfg")
        world.op("ck 1 setkey 0 %d %d" % it, tag="cfg")
        ref_at[i] = len(world.ops)
        metas.append((len(world.ops), {"kind": "verify", "tok": name, "role": "fresh-reference"}))
        world.op("ck 1 verify " + hx(tok), tag="verify")
    for s in seqs:
        world.op("ck 0 new", tag="cfg")
        world.op("ck 0 setkey 0 %d %d" % it, tag="cfg")
        for j, i in enumerate(s):
            name, tok = alpha[i]
            if name == "errclr":
                world.op("ck 0 errclr", tag="cfg")
                continue
            metas.append((len(world.ops), {"kind": "verify", "tok": name, "role": "reused", "ref": ref_at[i],
                                           "history": "/".join(alpha[k][0] for k in s[:j])[:100]}))
            world.op("ck 0 verify " + hx(tok), tag="verify")
    return metas


# =====================================================================================
# random API programs with a fresh-twin oracle (C13, C14, C01, C05, C19)
# =====================================================================================
def programs_suite(world, pool, tier, rng):
    """Long random programs over several checkers, builders, keys, callbacks, clocks and both providers.
    Every answer is compared with the Lean model (which carries the whole state); independently, before a
    sampled verify / generate the object's configuration history since its creation is replayed on a fresh
    twin and the twin is asked the same question first: a verdict or a token that differs from the twin's
    depends on something other than configuration, token and clock."""
    metas = []
    thorough = tier == "thorough"
    nprog, plen = (1500, 70) if thorough else (110, 55)
    base = 300
    items = {}          # (key name, attr, private) -> (set, idx)
    for name, key in pool.keys.items():
        adm = key.admissible_algs()
        for attr in (None, adm[0]):
            for private in (True, False):
                if key.kind == "oct" and not private:
                    continue
                items[(name, attr, private)] = world.add_key(base, key, private=private, alg_attr=attr)
                base += 1
    # token pool
    payloads = [{"sub": "p"}, {"exp": 900}, {"exp": 50000, "iss": "good"}, {"nbf": 90000}, {"iss": "evil", "aud": "a"}, {}]
    toks = []
    by_key = {}          # key name -> tokens made with it (valid ones and near misses)
    for name, key in pool.keys.items():
        for alg in key.admissible_algs()[:2]:
            prev_sig = None
            for pl in payloads[:4]:
                msg, sg = signed_token(pool, name, alg, payload=pl)
                if sg is None:
                    continue
                mine = [msg + b"." + sg, msg + b"." + sg[:-3] + (b"AAA" if not sg.endswith(b"AAA") else b"BBB")]
                if prev_sig is not None:
                    mine.append(msg + b"." + prev_sig)        # another token's signature under this header and payload
                prev_sig = sg
                toks += mine
                by_key.setdefault(name, []).extend(mine)
    for pl in payloads:
        toks.append(mk_token({"alg": "none"}, pl))
    toks += [b"abc", b"a.b", b"..", seg({"alg": "HS256"}) + b"." + seg({}) + b".", seg({"typ": "x"}) + b".e30.", None]
    item_list = list(items.items())
    NCK, NBL = 3, 3
    cbs_ck = ["-", "@ctx", "@ctx", "getalg", "cget:json:-", "ret:2", "hdel:-", "cset:int:%s:1:1" % hx(b"exp"), "hset:str:%s:%s:1" % (hx(b"alg"), hx(b"none")),
              "hset:str:%s:%s:1" % (hx(b"alg"), hx(b"HS256")), "cdel:-", "hset:json:%s:%s:1" % (hx(b"crit"), hx(b'["x"]'))]
    cbs_bl = ["-", "@ctx", "@ctx", "getalg", "cset:int:%s:7:1" % hx(b"k"), "ret:2", "hset:str:%s:%s:1" % (hx(b"kid"), hx(b"cb"))]

    def rand_item():
        (name, attr, private), it = rng.choice(item_list)
        return name, attr, private, it

    for pi in range(nprog):
        cfg = {("ck", i): None for i in range(NCK)}
        cfg.update({("bl", i): None for i in range(NBL)})
        curkey = {}        # checker index -> name of the key it was last given (by setkey or callback)
        world.op("clock 1000", tag="cfg")
        world.op("prov name " + hx(b"openssl"), tag="cfg")
        for i in range(NCK):
            world.op("ck %d new" % (20 + i), tag="cfg")
            cfg[("ck", i)] = []
        for i in range(NBL):
            world.op("bl %d new" % (20 + i), tag="cfg")
            cfg[("bl", i)] = []
        have_last = False
        for step in range(plen):
            r = rng.random()
            if r < 0.30:                                   # configure a checker
                i = rng.randrange(NCK)
                c = rng.random()
                if c < 0.35:
                    name, attr, private, it = rand_item()
                    curkey[i] = name
                    a = rng.choice([0, 0, K.ALG_ORD[pool.keys[name].admissible_algs()[0]], rng.randrange(16)])
                    line = "setkey %d %d %d" % ((a,) + it) if rng.random() < 0.9 else "setkey %d" % rng.choice([0, 1])
                elif c < 0.5:
                    line = rng.choice(["claimset iss " + hx(b"good"), "claimset aud " + hx(b"a"), "claimdel iss", "claimdel aud", "claimset sub " + hx(b"p")])
                elif c < 0.65:
                    line = "leeway %s %d" % (rng.choice(["exp", "nbf"]), rng.choice([-1, 0, 0, 5, 100000]))
                elif c < 0.9:
                    if rng.random() < 0.5:
                        name, attr, private, it = rand_item()
                        curkey[i] = name
                        line = "setcb key:%d:%d,alg:%d" % (it + (rng.choice([0, 0, K.ALG_ORD[pool.keys[name].admissible_algs()[0]]]),))
                    else:
                        line = "setcb " + rng.choice(cbs_ck)
                else:
                    line = "new"
                world.op("ck %d %s" % (20 + i, line), tag="cfg")
                if line == "new":
                    cfg[("ck", i)] = []
                else:
                    cfg[("ck", i)].append(line)
            elif r < 0.50:                                 # configure a builder
                i = rng.randrange(NBL)
                c = rng.random()
                if c < 0.4:
                    name, attr, private, it = rand_item()
                    a = rng.choice([0, 0, K.ALG_ORD[pool.keys[name].admissible_algs()[0]]])
                    line = "setkey %d %d %d" % ((a,) + it) if rng.random() < 0.9 else "setkey 0"
                elif c < 0.6:
                    line = rng.choice(["cset str %s %s 1" % (hx(b"iss"), hx(b"good")), "cset int %s 5 0" % hx(b"n"), "cdel %s" % hx(b"n"),
                                       "hset str %s %s 1" % (hx(b"kid"), hx(b"k")), "cset json - %s 1" % hx(b'{"exp":50000,"sub":"p"}'), "hdel -"])
                elif c < 0.75:
                    line = rng.choice(["iat 0", "iat 1", "offset exp 60", "offset exp 0", "offset nbf 5"])
                elif c < 0.92:
                    if rng.random() < 0.5:
                        name, attr, private, it = rand_item()
                        line = "setcb key:%d:%d,alg:%d" % (it + (rng.choice([0, K.ALG_ORD[pool.keys[name].admissible_algs()[0]]]),))
                    else:
                        line = "setcb " + rng.choice(cbs_bl)
                else:
                    line = "new"
                world.op("bl %d %s" % (20 + i, line), tag="cfg")
                if line == "new":
                    cfg[("bl", i)] = []
                else:
                    cfg[("bl", i)].append(line)
            elif r < 0.56:
                world.op("clock %d" % rng.choice([0, 1000, 1000, 60000, 2 ** 31]), tag="cfg")
            elif r < 0.60:
                world.op("prov name " + hx(rng.choice([b"openssl", b"gnutls"])), tag="cfg")
            elif r < 0.64:
                world.op("ck %d errclr" % (20 + rng.randrange(NCK)), tag="cfg")
            elif r < 0.78:                                 # generate (twin first, so that @last is the real one)
                i = rng.randrange(NBL)
                ref = None
                if rng.random() < 0.6:
                    world.op("bl 29 new", tag="cfg")
                    for l in cfg[("bl", i)]:
                        world.op("bl 29 " + l, tag="cfg")
                    ref = len(world.ops)
                    metas.append((ref, {"kind": "pgen", "role": "twin"}))
                    world.op("bl 29 gen", tag="gen")
                metas.append((len(world.ops), {"kind": "pgen", "role": "real", "ref": ref, "history": " / ".join(cfg[("bl", i)])[-200:]}))
                world.op("bl %d gen" % (20 + i), tag="gen")
                have_last = True
            else:                                          # verify
                i = rng.randrange(NCK)
                use_last = have_last and rng.random() < 0.3
                mine = by_key.get(curkey.get(i))
                tok = None if use_last else (rng.choice(mine) if mine and rng.random() < 0.6 else rng.choice(toks))
                arg = "@last" if use_last else hx(tok)
                ref = None
                if rng.random() < 0.6:
                    world.op("ck 29 new", tag="cfg")
                    for l in cfg[("ck", i)]:
                        world.op("ck 29 " + l, tag="cfg")
                    ref = len(world.ops)
                    metas.append((ref, {"kind": "pverify", "role": "twin"}))
                    world.op("ck 29 verify " + arg, tag="verify")
                metas.append((len(world.ops), {"kind": "pverify", "role": "real", "ref": ref, "history": " / ".join(cfg[("ck", i)])[-200:],
                                               "tok": "@last" if use_last else (tok[:30].decode("latin-1") if tok else "NULL")}))
                world.op("ck %d verify %s" % (20 + i, arg), tag="verify")
    world.op("prov name " + hx(b"openssl"), tag="cfg")
    return metas


def falsify_programs(m, out, eo=None):
    if m["kind"] == "pverify":
        c = c14_contract(out)
        if c:
            return "C14 contract broken: " + c
        if m.get("ref") is not None and eo is not None and eo[m["ref"]] != "<crash>":
            if field(out, "rc") != field(eo[m["ref"]], "rc"):
                return "verdict rc=%s on a checker with a history, rc=%s on a fresh checker configured by the same calls [%s] (token %s)" % (
                    field(out, "rc"), field(eo[m["ref"]], "rc"), m["history"], m["tok"])
    elif m["kind"] == "pgen":
        tokf, err, msg = field(out, "tok"), field(out, "err"), field(out, "msg")
        if tokf is not None and ((tokf == "NULL") != (err == "1") or (err == "1" and msg != "1") or (tokf != "NULL" and msg != "0")):
            return "generate returned %s with error flag %s, message-present %s" % ("NULL" if tokf == "NULL" else "a token", err, msg)
        if m.get("ref") is not None and eo is not None and eo[m["ref"]] != "<crash>":
            a, b = field(out, "tok"), field(eo[m["ref"]], "tok")
            if a is not None and b is not None:
                ha = a.rsplit("2e", 1)[0] if a != "NULL" else a          # header.payload part (hex of '.')
                hb = b.rsplit("2e", 1)[0] if b != "NULL" else b
                if (a == "NULL") != (b == "NULL") or ha != hb:
                    return "a builder with a history generated %s..., a fresh builder configured by the same calls %s... [%s]" % (a[:48], b[:48], m["history"])
    return None


# =====================================================================================
# C19: callbacks
# =====================================================================================
def callbacks_suite(world, pool, tier, rng):
    metas = []
    # the configured key has a key id, and some tokens name exactly that id: the callback is asked all the same
    it = world.add_key(50, pool.keys["oct32"], private=True, alg_attr="HS256", extra={"kid": "k"})
    world.op("clock 1000", tag="cfg")

    def S(kind, name, typ, val, repl):
        return "%s:%s:%s:%s:%d" % (kind, typ, hx(name), val, repl)
    steps = [S("cset", b"exp", "int", "99999", 1), S("cset", b"exp", "int", "1", 1), "cdel:" + hx(b"exp"),
             S("cset", b"nbf", "int", "0", 1), S("cset", b"nbf", "int", "99999", 1), "cdel:" + hx(b"nbf"),
             S("cset", b"iss", "str", hx(b"good"), 1), S("cset", b"iss", "str", hx(b"evil"), 1), "cdel:" + hx(b"iss"),
             S("cset", b"aud", "str", hx(b"good"), 1), "cdel:" + hx(b"aud"), S("cset", b"sub", "str", hx(b"good"), 0),
             S("hset", b"alg", "str", hx(b"none"), 1), S("hset", b"typ", "str", hx(b"x"), 1), "hdel:" + hx(b"alg"),
             "cdel:-", "hdel:-", S("cset", b"", "json", hx(b'{"exp":99999,"iss":"good"}'), 1),
             "cget:json:-", "hget:str:" + hx(b"alg"), "getalg",
             # header members other than alg: present on the token or not, the callback may add, change or drop them
             S("hset", b"crit", "json", hx(b'["exp"]'), 1), "hdel:" + hx(b"crit"), S("hset", b"kid", "str", hx(b"other"), 1),
             S("hset", b"", "json", hx(b'{"crit":["b64"],"b64":false,"zip":"DEF"}'), 1),
             # a key id of another JSON type, or none at all: whatever the callback leaves in the header, the MAC decides
             S("hset", b"kid", "int", "5", 1), S("hset", b"kid", "bool", "1", 1), S("hset", b"kid", "json", hx(b'{"a":[1]}'), 1), "hdel:" + hx(b"kid")]
    maxlen = 2
    progs = [(s,) for s in steps] + ([p for p in itertools.product(steps, repeat=2)] if tier == "thorough" else
                                     rng.sample([p for p in itertools.product(steps, repeat=2)], 120))
    cfgs = [[], ["claimset iss " + hx(b"good")], ["claimset aud " + hx(b"good"), "leeway exp 10"], ["leeway exp -1", "leeway nbf -1"],
            ["claimset sub " + hx(b"good"), "claimset iss " + hx(b"good")]]
    payloads = [{}, {"exp": 2000}, {"exp": 500}, {"nbf": 2000}, {"nbf": 500}, {"iss": "good"}, {"iss": "evil"},
                {"iss": "good", "aud": "good", "sub": "good", "exp": 2000, "nbf": 500}, {"aud": "evil", "exp": 995}]
    toks = []
    for pl in payloads:
        msg = seg({"alg": "HS256"}) + b"." + seg(pl)
        toks.append(("signed", pl, msg + b"." + pool.sign("oct32", "HS256", msg)))
        toks.append(("unsigned", pl, mk_token({"alg": "none"}, pl)))
    # tokens whose header carries more than alg (crit, kid, cty, a nested member)
    for pl in payloads[:3]:
        hd = {"alg": "HS256", "crit": ["exp"], "kid": "k", "cty": "JWT", "x": {"y": [1]}}
        msg = seg(hd) + b"." + seg(pl)
        toks.append(("signed", dict(pl, _hdr="crit,kid,cty,x"), msg + b"." + pool.sign("oct32", "HS256", msg)))
        toks.append(("unsigned", dict(pl, _hdr="crit,kid"), mk_token({"alg": "none", "crit": ["exp"], "kid": "k"}, pl)))
    # tokens whose MAC is not the key's (made under another key; the MAC of another message), with and without a key id of any type
    for hd in ({"alg": "HS256"}, {"alg": "HS256", "kid": "k"}, {"alg": "HS256", "kid": 5}, {"alg": "HS256", "kid": None}, {"alg": "HS256", "kid": {"a": 1}}):
        msg = seg(hd) + b"." + seg({"exp": 2000})
        toks.append(("signed", {"exp": 2000, "_mac": "other key", "_hdr": str(hd.get("kid", "-"))}, msg + b"." + hs_sig(K.ALG_ORD["HS256"], b"\x55" * 32, msg)))
        toks.append(("signed", {"exp": 2000, "_mac": "other message", "_hdr": str(hd.get("kid", "-"))}, msg + b"." + pool.sign("oct32", "HS256", msg + b"x")))
    for cfg in cfgs:
        for signed in (True, False):
            # reference: same configuration, no callback
            world.op("ck 1 new", tag="cfg")
            if signed:
                world.op("ck 1 setkey 0 %d %d" % it, tag="cfg")
            for c in cfg:
                world.op("ck 1 " + c, tag="cfg")
            refs = {}
            for k, (kind, pl, tok) in enumerate(toks):
                if (kind == "signed") != signed:
                    continue
                refs[k] = len(world.ops)
                metas.append((len(world.ops), {"kind": "verify", "role": "no-callback", "cfg": str(cfg)[:60], "payload": str(pl)[:90]}))
                world.op("ck 1 verify " + hx(tok), tag="verify")
            for pi_, prog in enumerate(progs):
                # non-zero results of every kind: odd, even, negative, beyond a byte, beyond 16 bits
                for ret in (0, (3, 1, 2, -1, 4, 256, 65536, -2, 2 ** 31 - 1, -(2 ** 31))[pi_ % 10]):
                    world.op("ck 0 new", tag="cfg")
                    if signed:
                        world.op("ck 0 setkey 0 %d %d" % it, tag="cfg")
                    for c in cfg:
                        world.op("ck 0 " + c, tag="cfg")
                    world.op("ck 0 setcb " + ",".join(prog) + (",ret:%d" % ret if ret else ""), tag="cfg")
                    for k in refs:
                        metas.append((len(world.ops), {"kind": "verify", "role": "with-callback", "ref": refs[k], "cbret": ret,
                                                       "prog": ",".join(prog)[:100], "cfg": str(cfg)[:60], "payload": str(toks[k][1])[:90]}))
                        world.op("ck 0 verify " + hx(toks[k][2]), tag="verify")
    return metas


def callback_admission_suite(world, pool, tier, rng):
    """C19 (admission clause): what a callback leaves in config->key / config->alg is admitted by the same
    table as jwt_checker_setkey -- also when the callback keeps the key that setkey installed and only
    writes the algorithm (e.g. copies it from the token header), re-installs the very same item, or
    reads the configuration first."""
    metas = []
    s = 700
    for name, key in pool.keys.items():
        adm = key.admissible_algs()
        fam = [a for a in ALG_NAMES if a in FAMILY and FAMILY[a] == key.kty]
        # the admission table speaks of the algorithm only: use / key_ops / kid of the JWK are not part of it
        for attr, meta_extra in [(None, None)] + [(a, None) for a in adm[:2]] + [(adm[0], {"use": "enc", "key_ops": ["encrypt", "wrapKey"], "kid": "enc-key"}),
                                                                                (None, {"use": "enc"})]:
            it = world.add_key(s, key, private=(key.kind == "oct"), alg_attr=attr, extra=meta_extra)
            s += 1
            attr_ord = 0 if attr is None else K.ALG_ORD[attr]
            cands = [0] + [K.ALG_ORD[a] for a in fam[:4]] + [K.ALG_ORD["HS256" if key.kty != "oct" else "RS256"]]
            for b in cands:
                for style in ("alg-only", "same-key+alg", "getalg+alg"):
                    prog = {"alg-only": "alg:%d" % b, "same-key+alg": "key:%d:%d,alg:%d" % (it + (b,)), "getalg+alg": "getalg,alg:%d" % b}[style]
                    admitted = (b != 0) if attr_ord == 0 else (b == 0 or b == attr_ord)
                    pinned = b or attr_ord
                    for h in sorted(set([x for x in (attr, K.ORD_ALG.get(b)) if x] + adm[:2])):
                        msg = seg({"alg": h, "typ": "JWT"}) + b"." + seg({"sub": "adm"})
                        sg = pool.sign(name, h, msg) if usable(key, h) else None
                        if sg is None:
                            continue
                        world.op("ck 0 new", tag="cfg")
                        if attr_ord or style != "alg-only":
                            # install the key first where setkey admits it (alg none + key with attribute); otherwise the callback installs it
                            pass
                        installed = attr_ord != 0
                        if installed:
                            world.op("ck 0 setkey 0 %d %d" % it, tag="cfg")
                        p2 = prog if (installed or style == "same-key+alg") else "key:%d:%d,%s" % (it + (prog,))
                        world.op("ck 0 setcb " + p2, tag="cfg")
                        ok = admitted and K.ALG_ORD[h] == pinned
                        metas.append((len(world.ops), {"kind": "verify", "key": name, "attr": attr, "cb": p2, "hdr": h,
                                                       "mut": "callback leaves alg %s with a key whose alg attribute is %s" % (K.ORD_ALG.get(b, b), attr),
                                                       "may_accept": True if ok else False, "must_accept": ok}))
                        world.op("ck 0 verify " + hx(msg + b"." + sg), tag="verify")
    return metas


def falsify_reuse(m, out, eo):
    c = c14_contract(out)
    if c:
        return "C14 contract broken: " + c
    if m.get("role") == "reused":
        ref = eo[m["ref"]]
        if field(out, "rc") != field(ref, "rc"):
            return "verdict on a reused checker (%s after [%s]) is rc=%s, a fresh identically configured checker says rc=%s" % (
                m["tok"], m["history"], field(out, "rc"), field(ref, "rc"))
        if out.split(" cb=")[-1] != ref.split(" cb=")[-1]:
            return "the callback of a reused checker (%s after [%s]) is handed a different configuration than on a fresh identically configured checker: %s vs %s" % (
                m["tok"], m["history"], out.split(" cb=")[-1][:80], ref.split(" cb=")[-1][:80])
    return None


def falsify_callbacks(m, out, eo):
    c = c14_contract(out)
    if c:
        return "C14 contract broken: " + c
    if "_mac" in m.get("payload", "") and field(out, "rc") == "0":
        return "accepted a token whose MAC is not the key's (%s; callback [%s])" % (m["payload"], m.get("prog", "-"))
    if m.get("role") == "with-callback":
        ref = eo[m["ref"]]
        if m["cbret"] == 0 and field(out, "rc") != field(ref, "rc"):
            return "inert callback [%s] changed the verdict: rc=%s with it, rc=%s without (cfg %s, payload %s)" % (
                m["prog"], field(out, "rc"), field(ref, "rc"), m["cfg"], m["payload"])
        if m["cbret"] != 0 and field(out, "rc") == "0":
            return "callback returned %d yet verification succeeded" % m["cbret"]
    return None


def token_shapes(world, pool, tier, rng):
    """C03: 2, 3, 4+ segments, empty/non-empty third segment, under keyless and keyed checkers"""
    metas = []
    it = world.add_key(60, pool.keys["oct32"], private=True, alg_attr="HS256")
    hs = [("none", seg({"alg": "none"})), ("None", seg({"alg": "None"})), ("NONE", seg({"alg": "NONE"})),
          ("HS256", seg({"alg": "HS256"})), ("missing", seg({"typ": "JWT"})), ("empty", b"")]
    p = seg({"a": 1})
    for keyed in (False, True):
        world.op("ck 0 new", tag="cfg")
        if keyed:
            world.op("ck 0 setkey 0 %d %d" % it, tag="cfg")
        for hname, h in hs:
            msg = h + b"." + p
            good = hs_sig(1, pool.keys["oct32"].k, msg)
            shapes = [("two-seg", msg), ("three-empty", msg + b"."), ("three-sig", msg + b"." + good), ("four", msg + b"." + good + b".x"),
                      ("four-empty", msg + b".."), ("lead-dot", b"." + msg + b"."), ("only-dots", b".."), ("three-garbage", msg + b".AAAA"),
                      # the third segment is what follows the SECOND dot, whatever follows later and however the second segment ends
                      # (the decoder stops at a pad, so `e30=` is a payload too)
                      ("pad-then-more", h + b".e30=.AAA."), ("pad-then-more-2", h + b".e30==.AAAA."), ("pad-then-dots", h + b".e30=.."),
                      ("pad-in-second", h + b".e30=AAA."), ("five-trailing-dot", msg + b".AAAA.BBBB."), ("many-dots", msg + b"....")]
            for sname, tok in shapes:
                if keyed:
                    may = hname == "HS256" and sname == "three-sig"
                else:
                    may = hname == "none" and sname in ("three-empty", "pad-in-second")
                must = may and sname != "pad-in-second"
                metas.append((len(world.ops), {"kind": "verify", "keyed": keyed, "hdr": hname, "shape": sname, "may_accept": may, "must_accept": must}))
                world.op("ck 0 verify " + hx(tok), tag="verify")
    return metas


# =====================================================================================
# Builder-side suites (C03b, C05, C09b, C10, C13b, C14b, C15)
# =====================================================================================
import pyspec as PS
import jsonlib as JL


def decode_token(tok):
    """independent reader: (header tree, payload tree, sig bytes) or None"""
    import base64
    parts = tok.split(b".")
    if len(parts) != 3:
        return None
    out = []
    for p in parts:
        if any(c not in b"ABCDEFGHIJKLMNOPQRSTUVWXYZabcdefghijklmnopqrstuvwxyz0123456789-_" for c in p) or len(p) % 4 == 1:
            return None
        try:
            out.append(base64.urlsafe_b64decode(p + b"=" * (-len(p) % 4)))
        except Exception:
            return None
    okh, h = JL.loads(out[0])
    okp, p = JL.loads(out[1])
    if not okh or not okp:
        return None
    return h, p, out[2]


SET_VALUES = [("int", "0"), ("int", "-1"), ("int", str(2 ** 63 - 1)), ("str", "-"), ("str", hx(b"x")), ("str", "NULL"),
              ("bool", "0"), ("bool", "1"), ("bool", "2"),
              ("json", hx(b"{}")), ("json", hx(b'{"a":1,"c":[]}')), ("json", hx(b"[1]")), ("json", hx(b"1")), ("json", hx(b"{")),
              ("json", "NULL"), ("json", hx(b'{"a":1,"a":2}')),
              # members of every JSON type, so that each typed get meets each stored type
              ("json", hx(b'{"a":2.75,"c":"s"}')), ("json", hx(b'{"a":true,"c":null}')), ("json", hx(b'{"a":{"b":1},"c":-3}')),
              ("json", hx(b"2.75")), ("json", hx(b"true")), ("json", hx(b'"s"')), ("json", hx(b"null")), ("json", hx(b"1e3"))]
NAMES = [hx(b"a"), hx(b"c"), "-", "NULL", hx(b"exp")]


def setget_ops():
    ops = []
    for nm in NAMES:
        for ty, v in SET_VALUES:
            for rp in (0, 1):
                ops.append(("set", ty, nm, v, rp))
        for ty in ("int", "str", "bool", "json"):
            ops.append(("get", ty, nm))
        ops.append(("del", nm))
    return ops


def _py_apply(m, op):
    """apply one op to a PyMap; returns the executor-format answer the property prescribes"""
    from lib import unhx
    if op[0] == "set":
        _, ty, nm, v, rp = op
        name = unhx(nm)
        val = unhx(v) if ty in ("str", "json") else v
        code = m.set(ty, name, val, bool(rp))
        return "rc=%d verr=%d" % (code, code)
    if op[0] == "get":
        _, ty, nm = op
        code, v = m.get(ty, unhx(nm))
        return PS.show_get(ty, code, v)
    m.delete(unhx(op[1]))
    return "rc=0"


def _line(prefix, which, op):
    if op[0] == "set":
        return "%s %sset %s %s %s %d" % (prefix, which, op[1], op[2], op[3], op[4])
    if op[0] == "get":
        return "%s %sget %s %s" % (prefix, which, op[1], op[2])
    return "%s %sdel %s" % (prefix, which, op[1])


def _step(which, op):
    if op[0] == "set":
        return "%sset:%s:%s:%s:%d" % (which, op[1], op[2], op[3], op[4])
    if op[0] == "get":
        return "%sget:%s:%s" % (which, op[1], op[2])
    return "%sdel:%s" % (which, op[1])


def setget_suite(world, pool, tier, rng):
    """C15: sequences of set/get/del on builder headers and claims (and, sampled, on the callback's
    jwt_t), each followed by a whole-object read-back; expected answers from the PyMap spec"""
    metas = []
    ops = setget_ops()
    seqs = [(o,) for o in ops] + [p for p in itertools.product(ops, repeat=2)]
    if tier != "thorough":
        # every (set, get) pair: each typed get meets each stored value; the other pairs sampled
        setget = [(a, b) for a in ops if a[0] == "set" for b in ops if b[0] == "get"]
        seqs = seqs[:len(ops)] + setget + rng.sample(seqs[len(ops):], 4000)
    else:
        seqs += [tuple(rng.choice(ops) for _ in range(3)) for _ in range(60000)]
    seqs += [tuple(rng.choice(ops) for _ in range(rng.randrange(4, 25))) for _ in range(400 if tier == "thorough" else 60)]
    for si, s in enumerate(seqs):
        which = "h" if si % 2 == 0 else "c"
        world.op("bl 0 new", tag="cfg")
        m = PS.PyMap()
        for op in s:
            want = _py_apply(m, op)
            metas.append((len(world.ops), {"kind": "setget", "op": str(op)[:80], "want": want, "on": "builder-" + which}))
            world.op(_line("bl 0", which, op), tag="setget")
            snap = PS.show_get("json", 0, m.d)
            metas.append((len(world.ops), {"kind": "setget", "op": "snapshot", "want": snap, "on": "builder-" + which}))
            world.op("bl 0 %sget json -" % which, tag="setget")
            if (si + len(world.ops)) % 7 == 0:
                # configuration calls of another kind in between (time offsets, iat switch, key, callback): the maps are what the
                # set / del calls made them, nothing else writes them
                cfgcall = ["offset exp 300", "offset nbf 5", "iat 1", "iat 0", "offset exp 0", "setcb getalg", "setcb -", "setkey 0"][(si + len(world.ops)) % 8]
                world.op("bl 0 " + cfgcall, tag="cfg")
                metas.append((len(world.ops), {"kind": "setget", "op": "snapshot after `%s`" % cfgcall, "want": snap, "on": "builder-" + which}))
                world.op("bl 0 %sget json -" % which, tag="setget")
    # the members that share a name with what the library writes itself (iat / nbf / exp, and typ / alg in the header) are the
    # application's like any other: switching the library's own writing on or off does not touch what is stored
    for which, names_ in (("c", (b"exp", b"nbf", b"iat")), ("h", (b"typ", b"alg"))):
        for cfgcall in ("offset exp 300", "offset nbf 5", "iat 1", "iat 0", "offset exp 0", "offset nbf -1"):
            world.op("bl 0 new", tag="cfg")
            m = PS.PyMap()
            for nm_ in names_:
                op = ("set", "int", hx(nm_), "7", 1)
                _py_apply(m, op)
                world.op(_line("bl 0", which, op), tag="cfg")
            world.op("bl 0 " + cfgcall, tag="cfg")
            metas.append((len(world.ops), {"kind": "setget", "op": "snapshot after `%s` with own %s stored" % (cfgcall, "/".join(n.decode() for n in names_)),
                                           "want": PS.show_get("json", 0, m.d), "on": "builder-" + which}))
            world.op("bl 0 %sget json -" % which, tag="setget")
            for nm_ in names_:
                op = ("set", "int", hx(nm_), "8", 0)
                want = _py_apply(m, op)
                metas.append((len(world.ops), {"kind": "setget", "op": "non-replacing set of %s after `%s`" % (nm_.decode(), cfgcall), "want": want, "on": "builder-" + which}))
                world.op(_line("bl 0", which, op), tag="setget")
    # member names that are not UTF-8 text (Latin-1, overlong forms, lone continuation octets, surrogates, beyond U+10FFFF) are
    # refused by every typed set and never stored; names that are UTF-8 are members like any other
    for ni, nm_ in enumerate([b"caf\xe9", b"x\xc0\xaf", b"\xff\xfe", b"\xed\xa0\x80", b"\xf4\x90\x80\x80", b"ok\x80", b"\xe2\x82", b"\xc3\xa9", b"\xe2\x82\xac", b"\xf0\x9f\x94\x91"]):
        for which in ("h", "c"):
            for rp in (0, 1):
                world.op("bl 0 new", tag="cfg")
                m = PS.PyMap()
                pre = ("set", "int", hx(b"a"), "1", 1)
                _py_apply(m, pre)
                world.op(_line("bl 0", which, pre), tag="cfg")
                for op in [("set", "int", hx(nm_), "7", rp), ("get", "int", hx(nm_)), ("set", "str", hx(nm_), hx(b"v"), rp), ("get", "str", hx(nm_)),
                           ("set", "bool", hx(nm_), "1", rp), ("get", "bool", hx(nm_)), ("set", "json", hx(nm_), hx(b'{"k":[1]}'), rp), ("get", "json", hx(nm_)),
                           ("del", hx(nm_))]:
                    want = _py_apply(m, op)
                    metas.append((len(world.ops), {"kind": "setget", "op": "%s with the name %r" % (str(op[:2]), nm_), "want": want, "on": "builder-" + which}))
                    world.op(_line("bl 0", which, op), tag="setget")
                    metas.append((len(world.ops), {"kind": "setget", "op": "snapshot after %s with the name %r" % (str(op[:2]), nm_),
                                                   "want": PS.show_get("json", 0, m.d), "on": "builder-" + which}))
                    world.op("bl 0 %sget json -" % which, tag="setget")
    # values and whole maps of every size: one long string, one array / object whose text has that length, that many short
    # members; each read back typed, as JSON, and as the whole-object snapshot
    for zi, n in enumerate(sizes([1, 100, 200, 250, 300] + STD_SIZES + [8191, 8192, 8193, 30000], lo=1, hi=30000)):
        which = "h" if zi % 2 == 0 else "c"
        arr = b"[" + b",".join(b"%d" % (i % 10) for i in range(max(1, (n - 1) // 2))) + b"]"
        obj = JL.dumps({"k%03d" % i: "v" for i in range(max(1, n // 11))})
        progs = [[("set", "str", hx(b"s"), hx(b"x" * n), 1), ("get", "str", hx(b"s")), ("get", "json", hx(b"s"))],
                 [("set", "json", hx(b"a"), hx(arr), 1), ("get", "json", hx(b"a")), ("get", "str", hx(b"a"))],
                 [("set", "json", hx(b"o"), hx(obj), 1), ("get", "json", hx(b"o"))],
                 [("set", "str", hx(b"m%04d" % i), hx(b"v"), 1) for i in range(max(1, n // 12))] + [("get", "str", hx(b"m0000"))]]
        for pr in progs:
            world.op("bl 0 new", tag="cfg")
            m = PS.PyMap()
            for oi, op in enumerate(pr):
                want = _py_apply(m, op)
                metas.append((len(world.ops), {"kind": "setget", "op": ("size %d: " % n) + str(op)[:60], "want": want, "on": "builder-" + which}))
                world.op(_line("bl 0", which, op), tag="setget")
                if oi >= len(pr) - 2:
                    metas.append((len(world.ops), {"kind": "setget", "op": "snapshot (size %d)" % n, "want": PS.show_get("json", 0, m.d), "on": "builder-" + which}))
                    world.op("bl 0 %sget json -" % which, tag="setget")
    # an application that keeps ONE jwt_value_t across calls and only fills in what the next call needs: what the
    # previous call left in .error must not leak into the next answer
    world.op("valreuse 1", "echo", cmp=False, tag="cfg")
    reuse_seqs = [p for p in itertools.product(ops, repeat=2)]
    reuse_seqs = rng.sample(reuse_seqs, 12000 if tier == "thorough" else 2500) + \
        [tuple(rng.choice(ops) for _ in range(rng.randrange(3, 9))) for _ in range(1500 if tier == "thorough" else 300)]
    for si, s in enumerate(reuse_seqs):
        which = "h" if si % 2 == 0 else "c"
        world.op("bl 0 new", tag="cfg")
        m = PS.PyMap()
        for op in s:
            want = _py_apply(m, op)
            metas.append((len(world.ops), {"kind": "setget", "op": str(op)[:80] + " (value struct reused from the previous call)", "want": want, "on": "builder-" + which}))
            world.op(_line("bl 0", which, op), tag="setget")
            if op[0] == "set":
                # what was stored is what this call asked for, whatever the struct held before (wider union members included)
                metas.append((len(world.ops), {"kind": "setget", "op": "snapshot after " + str(op)[:60] + " with a reused value struct", "want": PS.show_get("json", 0, m.d),
                                               "on": "builder-" + which}))
                world.op("bl 0 %sget json -" % which, tag="setget")
    world.op("valreuse 0", "echo", cmp=False, tag="cfg")
    # on the jwt_t handed to callbacks (builder callback: starts from the builder's maps + iat)
    world.op("clock 1000", tag="cfg")
    cbseqs = rng.sample(seqs, 800 if tier == "thorough" else 150)
    for si, s in enumerate(cbseqs):
        which = "h" if si % 2 == 0 else "c"
        s = s[:6]
        # the first operations go to the builder itself, the rest run inside the callback on the per-token
        # object, which starts as a copy of the builder's map; afterwards the builder must still hold exactly
        # what it was given directly (a write to the token's map is not a write to the builder's)
        k = (len(s) // 2) if si % 3 else 0
        world.op("bl 1 new", tag="cfg")
        world.op("bl 1 iat 0", tag="cfg")
        mb = PS.PyMap()
        for op in s[:k]:
            _py_apply(mb, op)
            world.op(_line("bl 1", which, op), tag="cfg")
        prog = ",".join(_step(which, op) for op in s[k:]) + ",%sget:json:-" % which
        if len(prog) > 3500:
            continue
        world.op("bl 1 setcb " + prog, tag="cfg")
        m = mb.copy()
        wants = ["alg=0 key=0"] + [_py_apply(m, op) for op in s[k:]] + [PS.show_get("json", 0, m.d)]
        metas.append((len(world.ops), {"kind": "cbobs", "want": ";".join(wants), "on": "jwt_t-" + which, "prog": prog[:100]}))
        world.op("bl 1 gen", tag="gen")
        metas.append((len(world.ops), {"kind": "setget", "op": "builder map after a callback worked on the token's copy (%s)" % prog[:60],
                                       "want": PS.show_get("json", 0, mb.d), "on": "builder-" + which}))
        world.op("bl 1 %sget json -" % which, tag="setget")
    return metas


def falsify_setget(m, out, eo=None):
    if m["kind"] == "setget":
        if out != m["want"]:
            return "%s on %s answered `%s`, a typed map answers `%s`" % (m["op"], m["on"], out[:120], m["want"][:120])
    elif m["kind"] == "cbobs":
        got = out.split(" cb=[", 1)[1].rsplit("]", 1)[0] if " cb=[" in out else None
        if got != m["want"]:
            return "callback operations on %s observed `%s`, a typed map gives `%s`" % (m["on"], (got or out)[:160], m["want"][:160])
    return None


# ---- C10 ------------------------------------------------------------------------------
def _cfg_alphabet(it_priv):
    """(executor/driver line suffix, effect on PyBuilder)"""
    def hset(name, ty, val, raw, rp=1):
        return ("hset %s %s %s %d" % (ty, hx(name), val, rp), lambda b: b.headers.set(ty, name, raw, bool(rp)))

    def cset(name, ty, val, raw, rp=1):
        return ("cset %s %s %s %d" % (ty, hx(name), val, rp), lambda b: b.claims.set(ty, name, raw, bool(rp)))
    al = [hset(b"alg", "str", hx(b"none"), b"none"), hset(b"typ", "str", hx(b"x"), b"x"), hset(b"typ", "int", "7", "7"),
          # a member that is there with the value null is there: defaults and non-replacing sets leave it alone
          ("hset json - %s 1" % hx(b'{"typ":null,"kid":null}'), lambda b: b.headers.set("json", None, b'{"typ":null,"kid":null}', True)),
          ("cset json - %s 1" % hx(b'{"x":null,"iat":null}'), lambda b: b.claims.set("json", None, b'{"x":null,"iat":null}', True)),
          cset(b"x", "int", "5", "5", 0), hset(b"kid", "str", hx(b"k2"), b"k2", 0),
          hset(b"kid", "str", hx(b"k1"), b"k1", 0), ("hdel " + hx(b"typ"), lambda b: b.headers.delete(b"typ")),
          ("hdel -", lambda b: b.headers.delete(None)),
          cset(b"iat", "int", "5", "5"), cset(b"exp", "int", "7", "7"), cset(b"nbf", "str", hx(b"n"), b"n"),
          cset(b"x", "json", hx(b'{"y":[1,2.5,"z"]}'), b'{"y":[1,2.5,"z"]}'), ("cdel " + hx(b"x"), lambda b: b.claims.delete(b"x")),
          ("cdel -", lambda b: b.claims.delete(None)),
          ("iat 0", lambda b: setattr(b, "iat", False)), ("iat 1", lambda b: setattr(b, "iat", True)),
          ("iat -1", lambda b: setattr(b, "iat", True)), ("iat %d" % -2 ** 31, lambda b: setattr(b, "iat", True)), ("iat 256", lambda b: setattr(b, "iat", True)),
          # the application's own time claims of another JSON type (a real, a string, an array): what the library injects replaces them
          ("cset json - %s 1" % hx(b'{"iat":1700000000.5,"nbf":2.5e9,"exp":1e9}'), lambda b: b.claims.set("json", None, b'{"iat":1700000000.5,"nbf":2.5e9,"exp":1e9}', True)),
          ("cset json - %s 1" % hx(b'{"iat":"now","nbf":[1],"exp":{"t":1},"k":1.0}'), lambda b: b.claims.set("json", None, b'{"iat":"now","nbf":[1],"exp":{"t":1},"k":1.0}', True))]
    # whole documents whose members are objects on both sides: a document set replaces (or keeps) each member as a whole
    al.append(("@nested", None))
    for tgt_ in ("c", "h"):
        for doc_ in (b'{"addr":{"city":"Oslo","zip":"0150"},"lvl":{"a":{"b":1,"c":2}},"exp":{"u":2}}', b'{"addr":{"city":"Bergen"},"lvl":{"a":{"d":3}},"tags":{}}',
                     b'{"addr":{},"lvl":{"a":null}}'):
            for rp_ in (1, 0):
                al.append(("%sset json - %s %d" % (tgt_, hx(doc_), rp_),
                           (lambda tgt_, doc_, rp_: lambda b: (b.claims if tgt_ == "c" else b.headers).set("json", None, doc_, bool(rp_)))(tgt_, doc_, rp_)))
    for cl in ("exp", "nbf"):
        for secs in (-5, 0, 1, 600, 2 ** 31 - 1, 2 ** 31, 2 ** 32 + 7, 2 ** 62):      # a span is a 64-bit time_t
            al.append(("offset %s %d" % (cl, secs), (lambda cl, secs: lambda b: setattr(b, cl + "_off", secs if secs > 0 else None))(cl, secs)))
    al.append(("setkey 0 %d %d" % it_priv, lambda b: setattr(b, "alg", "HS256")))
    al.append(("setkey 0", lambda b: setattr(b, "alg", None)))
    return al


def builder_suite(world, pool, tier, rng):
    """C10: configuration sequences interleaved with generate at several clocks; the token is decoded by
    an independent reader and compared with what the builder was told; builder state read back after"""
    metas = []
    it = world.add_key(70, pool.keys["oct32"], private=True, alg_attr="HS256")
    al = _cfg_alphabet(it)
    mark = [i for i, a_ in enumerate(al) if a_[0] == "@nested"][0]
    al.pop(mark)
    nested = list(range(mark, mark + 12))
    maxlen = 3 if tier == "thorough" else 2
    seqs = [s for n in range(0, maxlen + 1) for s in itertools.product(range(len(al)), repeat=n)]
    if tier != "thorough":
        seqs = [s for s in seqs if len(s) < 2] + rng.sample([s for s in seqs if len(s) == 2], 250)
    else:
        seqs = [s for s in seqs if len(s) < 3] + rng.sample([s for s in seqs if len(s) == 3], 3000)
    seqs += [tuple(rng.randrange(len(al)) for _ in range(rng.randrange(3, 14))) for _ in range(600 if tier == "thorough" else 120)]
    # every ordered pair of document sets of the same map whose members are objects on both sides
    seqs += [(i, j) for i in nested for j in nested if (i < mark + 6) == (j < mark + 6)]
    cbprogs = [None, "cset:int:%s:42:1,hset:str:%s:%s:1" % (hx(b"iat"), hx(b"alg"), hx(b"zz")), "cdel:-,hdel:-",
               "cset:json:-:%s:1" % hx(b'{"exp":1,"q":null}')]
    clocks = [0, 1, 2 ** 31, 2 ** 40]
    for si, s in enumerate(seqs):
        world.op("bl 0 new", tag="cfg")
        b = PS.PyBuilder()
        for i in s:
            world.op("bl 0 " + al[i][0], tag="cfg")
            al[i][1](b)
        prog = cbprogs[si % len(cbprogs)] if si % 3 == 0 else None
        if prog:
            world.op("bl 0 setcb " + prog, tag="cfg")

        def cb(h, c, prog=prog):
            from lib import unhx
            for st in prog.split(","):
                a = st.split(":")
                tgt = h if a[0][0] == "h" else c
                if a[0][1:] == "set":
                    ty = a[1]
                    raw = unhx(a[3]) if ty in ("str", "json") else a[3]
                    tgt.set(ty, unhx(a[2]), raw, a[4] != "0")
                elif a[0][1:] == "del":
                    tgt.delete(unhx(a[1]))
        for rep in range(2):
            now = clocks[(si + rep) % len(clocks)]
            world.op("clock %d" % now, tag="cfg")
            eh, ep = b.expected(now, cb if prog else None)
            metas.append((len(world.ops), {"kind": "gen", "hdr": JL.jenc(eh), "pay": JL.jenc(ep), "alg": b.alg, "now": now,
                                           "seq": " / ".join(al[i][0] for i in s)[:160], "prog": prog}))
            world.op("bl 0 gen", tag="gen")
            # the builder itself is unchanged by generating (and by the callback)
            metas.append((len(world.ops), {"kind": "setget", "op": "headers-after-gen", "want": PS.show_get("json", 0, b.headers.d), "on": "builder"}))
            world.op("bl 0 hget json -", tag="setget")
            metas.append((len(world.ops), {"kind": "setget", "op": "claims-after-gen", "want": PS.show_get("json", 0, b.claims.d), "on": "builder"}))
            world.op("bl 0 cget json -", tag="setget")
    # sessions: ONE builder makes many tokens; between them the callback is replaced, removed or put back, and the builder's
    # own headers and claims are edited.  A callback's edits belong to the token it was called for and to no other.
    def mk_cb(prog):
        def cb(h, c):
            from lib import unhx
            for st in prog.split(","):
                a = st.split(":")
                tgt = h if a[0][0] == "h" else c
                if a[0][1:] == "set":
                    raw = unhx(a[3]) if a[1] in ("str", "json") else a[3]
                    tgt.set(a[1], unhx(a[2]), raw, a[4] != "0")
                elif a[0][1:] == "del":
                    tgt.delete(unhx(a[1]))
        return cb
    sprogs = [None, None,
              "hset:str:%s:%s:1" % (hx(b"kid"), hx(b"key-A")), "hset:str:%s:%s:1" % (hx(b"kid"), hx(b"key-B")),
              "hset:str:%s:%s:1,cset:str:%s:%s:1" % (hx(b"kid"), hx(b"key-C"), hx(b"jti"), hx(b"t-1")),
              "hdel:%s" % hx(b"kid"), "hdel:%s,cdel:%s" % (hx(b"typ"), hx(b"sub")), "hset:json:-:%s:1" % hx(b'{"cty":"x","crit":["cty"]}'),
              "cset:int:%s:7:1" % hx(b"lvl"), "hset:str:%s:%s:0" % (hx(b"kid"), hx(b"not-replacing")),
              "cset:int:%s:9:1,cset:int:%s:3:1" % (hx(b"ratio"), hx(b"sub"))]
    edits = [None, None, None, ("hset str %s %s 1" % (hx(b"kid"), hx(b"builder-kid")), lambda b: b.headers.set("str", b"kid", b"builder-kid", True)),
             ("hdel %s" % hx(b"kid"), lambda b: b.headers.delete(b"kid")),
             ("cset str %s %s 1" % (hx(b"sub"), hx(b"someone")), lambda b: b.claims.set("str", b"sub", b"someone", True)),
             ("cdel %s" % hx(b"sub"), lambda b: b.claims.delete(b"sub")),
             ("cset json %s %s 1" % (hx(b"ratio"), hx(b"0.5")), lambda b: b.claims.set("json", b"ratio", b"0.5", True))]
    for se in range(60 if tier == "thorough" else 14):
        world.op("bl 0 new", tag="cfg")
        world.op("bl 0 setkey 0 %d %d" % it, tag="cfg")
        b = PS.PyBuilder()
        b.alg = "HS256"
        cur = None
        hist = []
        for g in range(rng.randrange(4, 12)):
            e = rng.choice(edits)
            if e:
                world.op("bl 0 " + e[0], tag="cfg")
                e[1](b)
                hist.append(e[0].split()[0])
            if g == 0 or rng.random() < 0.6:
                cur = sprogs[(se + g) % len(sprogs)] if g < 2 else rng.choice(sprogs)
                world.op("bl 0 setcb " + (cur or "-"), tag="cfg")
            elif rng.random() < 0.5:
                world.op("bl 0 setcb @ctx", tag="cfg")          # context only: whatever callback is installed stays
                hist.append("ctx")
            hist.append("gen[%s]" % ("-" if not cur else cur.split(":")[0] + ":" + cur.split(":")[-2][-4:]))
            now = clocks[(se + g) % len(clocks)]
            world.op("clock %d" % now, tag="cfg")
            eh, ep = b.expected(now, mk_cb(cur) if cur else None)
            metas.append((len(world.ops), {"kind": "gen", "hdr": JL.jenc(eh), "pay": JL.jenc(ep), "alg": b.alg, "now": now,
                                           "seq": "session: " + " ".join(hist)[-200:], "prog": cur}))
            world.op("bl 0 gen", tag="gen")
    # content fidelity: header and claim members the registered names and near-misses of their usual values
    hnames = [b"typ", b"alg", b"kid", b"cty", b"crit", b"x5t", b"TYP", b"Alg", b"x"]
    cnames = [b"iat", b"exp", b"nbf", b"iss", b"sub", b"aud", b"jti", b"x", b"Iat"]
    strs = [b"JWT", b"jwt", b"Jwt", b"jWT", b"JOSE", b"at+jwt", b"", b"none", b"NONE", b"HS256", b"hs256", b"RS256", b" JWT", b"JWT ", b"0", b"true",
            b"null", "é".encode(), b"a\"b\\c", b"https://example.com/x?y=z&w"]
    ints = ["0", "1", "-1", "5000", str(2 ** 31), str(2 ** 53 + 1), str(2 ** 63 - 1), str(-(2 ** 63))]
    jsons = [b'["a","b"]', b'{"k":null}', b"[]", b"{}", b'[1,2.5,{"z":[]}]',
             # reals that need all 17 significant digits, extremes, exponents
             b'[0.30000000000000004,1700000000.1234567,0.1,1e-7]', b'{"r":4503599627370496.5,"m":1.7976931348623157e308,"t":5e-324}',
             b'[123456789012345.67,-0.0,1e21,0.3333333333333333]', b"null", b"null", b"false", b'""', b"0"]
    # signature lengths of every residue mod 3 (32, 48, 64 octets): the unpadded form differs in its last characters
    it64 = world.add_key(72, K.Key("oct", k=os.urandom(64), bits=512), private=True, alg_attr=None)
    for ci in range(4000 if tier == "thorough" else 400):
        world.op("bl 0 new", tag="cfg")
        b = PS.PyBuilder()
        if ci % 4 == 0:
            world.op("bl 0 setkey 0 %d %d" % it, tag="cfg")
            b.alg = "HS256"
        elif ci % 4 != 3:
            b.alg = ("HS384", "HS512", "HS384")[ci % 3]
            world.op("bl 0 setkey %d %d %d" % ((K.ALG_ORD[b.alg],) + it64), tag="cfg")
        if ci % 5 == 0:
            world.op("bl 0 iat 0", tag="cfg")
            b.iat = False
        if ci % 6 == 1:
            doc_ = rng.choice([b'{"typ":null}', b'{"typ":false}', b'{"typ":0,"cty":null}', b'{"typ":""}'])
            world.op("bl 0 hset json - %s 1" % hx(doc_), tag="cfg")
            b.headers.set("json", None, doc_, True)
        desc = []
        for _ in range(rng.randrange(1, 5)):
            hdr = rng.random() < 0.5
            name = rng.choice(hnames if hdr else cnames)
            ty = rng.choice(["str", "str", "int", "bool", "json"])
            if rng.random() < 0.35:      # a registered name with a near-miss of its usual value
                hdr, name, ty = rng.choice([(True, b"typ", "str"), (True, b"typ", "json"), (True, b"alg", "str"), (False, b"iat", "int"), (False, b"exp", "int"),
                                            (False, b"nbf", "int"), (False, b"aud", "json"), (True, b"crit", "json")])
            if ty == "str":
                raw = rng.choice(strs)
                val = hx(raw)
            elif ty == "int":
                raw = val = rng.choice(ints)
            elif ty == "bool":
                raw = val = rng.choice(["0", "1"])
            else:
                raw = rng.choice(jsons)
                val = hx(raw)
            rp = rng.randrange(2)
            world.op("bl 0 %sset %s %s %s %d" % ("h" if hdr else "c", ty, hx(name), val, rp), tag="cfg")
            (b.headers if hdr else b.claims).set(ty, name, raw, bool(rp))
            desc.append("%s.%s=%s:%r" % ("h" if hdr else "c", name.decode(), ty, raw if isinstance(raw, str) else raw.decode("utf-8", "replace")))
        now = clocks[ci % len(clocks)]
        world.op("clock %d" % now, tag="cfg")
        if ci % 3 == 0:
            # a token has ONE issue time: with the clock moving on at every reading, iat / nbf / exp still belong together
            world.op("bl 0 offset exp %d" % rng.choice([1, 60, 3600]), tag="cfg")
            world.op("bl 0 offset nbf %d" % rng.choice([1, 5]), tag="cfg")
            b.exp_off, b.nbf_off = int(world.ops[-2].ex.split()[-1]), int(world.ops[-1].ex.split()[-1])
            world.op("clocktick 1", "echo", cmp=False, tag="cfg")
        eh, ep = b.expected(now, None)
        metas.append((len(world.ops), {"kind": "gen", "hdr": JL.jenc(eh), "pay": JL.jenc(ep), "alg": b.alg, "now": now,
                                       "seq": "content: " + " / ".join(desc)[:200] + (" [ticking clock]" if ci % 3 == 0 else ""), "prog": None}))
        world.op("bl 0 gen", tag="gen")
        if ci % 3 == 0:
            world.op("clocktick 0", "echo", cmp=False, tag="cfg")
    # signing with a public-only key is refused
    pub = world.add_key(71, pool.keys["p256"], private=False, alg_attr="ES256")
    world.op("bl 0 new", tag="cfg")
    metas.append((len(world.ops), {"kind": "setkey", "expect_rc": 1, "cfg_alg": 0, "key": "p256-public", "attr": "ES256"}))
    world.op("bl 0 setkey 0 %d %d" % pub, tag="cfg")
    world.op("bl 0 setcb key:%d:%d" % pub, tag="cfg")
    metas.append((len(world.ops), {"kind": "gen-must-fail", "why": "callback selected a public-only key"}))
    world.op("bl 0 gen", tag="gen")
    return metas


def falsify_builder(m, out, eo=None):
    from lib import unhx
    if m["kind"] == "setget":
        return falsify_setget(m, out)
    if m["kind"] == "setkey":
        return None if out == "rc=%d" % m["expect_rc"] else "builder setkey with %s returned %s (expected %d)" % (m["key"], out, m["expect_rc"])
    tokf, err, msg = field(out, "tok"), field(out, "err"), field(out, "msg")
    if tokf is None:
        return None
    # C14: NULL exactly when the flag is set with a message
    if (tokf == "NULL") != (err == "1") or (err == "1" and msg != "1") or (tokf != "NULL" and msg != "0"):
        return "generate returned %s with error flag %s, message-present %s" % ("NULL" if tokf == "NULL" else "a token", err, msg)
    if m["kind"] == "gen-must-fail":
        return None if tokf == "NULL" else "generate succeeded although %s" % m["why"]
    if m["kind"] == "gen":
        if tokf == "NULL":
            return "generate failed for a usable configuration [%s]" % m["seq"]
        tok = unhx(tokf)
        d = decode_token(tok)
        if d is None:
            return "generated string is not three unpadded base64url parts of JSON, JSON, signature: %r" % tok[:80]
        h, p, sig = d
        if not isinstance(h, dict) or not isinstance(p, dict):
            return "header or payload of a generated token is not a JSON object"
        if JL.jenc(h) != m["hdr"]:
            return "header of generated token is %s, the builder was told %s [%s]" % (JL.jenc(h)[:200], m["hdr"][:200], m["seq"])
        if JL.jenc(p) != m["pay"]:
            return "payload of generated token is %s, the builder was told %s [%s] now=%s" % (JL.jenc(p)[:200], m["pay"][:200], m["seq"], m["now"])
        if (m["alg"] is None) != (sig == b""):
            return "signature segment %s for alg %s" % ("empty" if sig == b"" else "present", m["alg"])
    return None


# ---- C05 ------------------------------------------------------------------------------
def rand_tree(rng, depth=0):
    r = rng.random()
    if depth > 5 or r < 0.35:
        c = rng.randrange(9)
        if c == 0:
            return rng.choice([0, 1, -1, 2 ** 31, 2 ** 53 + 1, 2 ** 63 - 1, -(2 ** 63)])
        if c == 1:
            return rng.randrange(-10 ** 12, 10 ** 12)
        if c == 2:
            return rng.choice([True, False, None])
        if c == 3:
            # short decimals, and reals that need all 17 significant digits to survive a dump/load round trip
            return rng.choice([1.5, -0.25, 1e10, 3.0, 0.1, 1e-7, 123456.789, 0.1 + 0.2, 1727432123.456789, 2.0 ** 52 + 0.5,
                               rng.random(), rng.uniform(-1e9, 1e9), 1.7976931348623157e308, 5e-324, 1 / 3])
        if c == 4:
            return ""
        if c == 5:
            return "".join(rng.choice("abc xyz/\\\"\n\té中\U0001F600.=-_+") for _ in range(rng.randrange(1, 12)))
        if c == 6:
            return "L" * rng.choice([100, 1000, 4096])
        if c == 7:
            return {}
        return []
    if r < 0.7:
        return {("k%d" % i if rng.random() < 0.8 else rng.choice(["", "é", "a b", "alg", "exp"])): rand_tree(rng, depth + 1)
                for i in range(rng.randrange(0, 5))}
    return [rand_tree(rng, depth + 1) for _ in range(rng.randrange(0, 5))]


def roundtrip_suite(world, pool, tier, rng):
    """C05: generate with every key/alg on each provider, verify with the public half on each provider,
    read header and claims back in the checker callback"""
    metas = []
    thorough = tier == "thorough"
    per_key = 40 if thorough else 6
    ec_extra = 4096 if thorough else 150
    world.op("clock 5000", tag="cfg")
    s = 100
    provs = ["openssl", "gnutls"]
    poison = None
    if "rsa2048" in pool.keys:
        pit = world.add_key(97, pool.keys["rsa2048"], private=False, alg_attr="RS256")
        world.op("ck 8 new", tag="cfg")
        world.op("ck 8 setkey 0 %d %d" % pit, tag="cfg")
        poison = {"bad_tok": seg({"alg": "RS256"}) + b"." + seg({}) + b"." + K.b64u(bytes(rng.randrange(256) for _ in range(256))).encode(),
                  "bad_jwks": json.dumps({"keys": [{"kty": "EC", "crv": "P-256", "x": K.b64u(bytes([1] * 32)), "y": K.b64u(bytes([2] * 32))},
                                                   {"kty": "RSA", "n": "AQAB", "e": "AA"}]}).encode()}
    # an RSA modulus whose bit length is not a multiple of 8 (signature length is ceil(bits/8) octets)
    odd = dict(pool.keys)
    odd["rsa2050"] = K.gen_key("rsa", 2050, world.ctx.scratch)
    alg_sel = {}
    for rn_, rk_, ra_ in pool.light(thorough):
        odd[rn_] = rk_
        alg_sel[rn_] = ra_
    for name, key in odd.items():
        priv = world.add_key(s, key, private=True, alg_attr=None)
        pub = world.add_key(s + 1, key, private=(key.kind == "oct"), alg_attr=None)
        s += 2
        for alg in alg_sel.get(name, key.admissible_algs()):
            a = K.ALG_ORD[alg]
            rare_ = name not in pool.keys
            n = (3 if rare_ else per_key) + (ec_extra if key.kind == "ec" and not rare_ else 0)
            for i in range(n):
                p_sign = provs[i % 2]
                p_ver = provs[(i // 2) % 2]
                if alg == "ES256K" and "gnutls" in (p_sign, p_ver):
                    p_sign = p_ver = "openssl"
                simple = i >= per_key
                if i % 7 == 3 and poison:
                    # something fails inside the crypto library first (a refused key, a failed verification):
                    # what is generated and verified next must not depend on it
                    world.op("ck 8 verify " + hx(poison["bad_tok"]), cmp=False, tag="cfg")
                    world.op("jwks 98 del", cmp=False, tag="cfg")
                    world.load_doc(98, poison["bad_jwks"], "strn", tag="cfg")
                claims = {"n": i} if simple else {"d": rand_tree(rng), "n": i}
                if i % 5 == 2:
                    # the application's own time claims compete with the ones the library is told to write: the library's win
                    claims.update({"exp": rng.choice([1, 4102444800, "soon", 1.5]), "iat": rng.choice([7, 1000000000, None]), "nbf": (rng.choice([9, 2 ** 40, [1]]) if i % 3 == 0 else rng.choice([9, 4999]))})      # nbf is only overridden when an offset is set
                hdr = {} if simple else {"x": rand_tree(rng, 3)}
                if not simple and i % 2:
                    # registered header names with values of any JSON type: the builder was told this, the token must say it
                    hdr[rng.choice(["typ", "cty", "kid", "crit"])] = rand_tree(rng, 4)
                world.op("prov name " + hx(p_sign.encode()), tag="cfg")
                world.op("bl 0 new", tag="cfg")
                world.op("bl 0 setkey %d %d %d" % ((a,) + priv), tag="cfg")
                world.op("bl 0 offset exp 60", tag="cfg")
                world.op("bl 0 offset nbf 1", tag="cfg") if i % 3 == 0 else None
                if i % 4 == 1:
                    # "0 to disable, any other value to enable": switched off and on again with some way of saying "on"
                    world.op("bl 0 iat 0", tag="cfg")
                    world.op("bl 0 iat %d" % [1, -1, 2, -2 ** 31, 2 ** 31 - 1, 256, -256, 65536][(i // 4) % 8], tag="cfg")
                world.op("bl 0 cset json - %s 1" % hx(JL.dumps(claims)), tag="cfg")
                if hdr:
                    world.op("bl 0 hset json - %s 1" % hx(JL.dumps(hdr)), tag="cfg")
                exp_claims = dict(claims)
                exp_claims.update({"iat": 5000, "exp": 5060})
                if i % 3 == 0:
                    exp_claims["nbf"] = 5001
                exp_hdr = dict(hdr)
                exp_hdr["alg"] = alg                      # forced
                exp_hdr.setdefault("typ", "JWT")          # defaulted only when the application did not set one (any JSON type)
                metas.append((len(world.ops), {"kind": "gen", "hdr": JL.jenc(exp_hdr), "pay": JL.jenc(exp_claims), "alg": alg, "now": 5000,
                                               "seq": "%s/%s sign=%s" % (name, alg, p_sign), "prog": None}))
                world.op("bl 0 gen", tag="gen")
                world.op("prov name " + hx(p_ver.encode()), tag="cfg")
                world.op("clock 5002", tag="cfg")
                world.op("ck 0 new", tag="cfg")
                world.op("ck 0 setkey %d %d %d" % ((a,) + pub), tag="cfg")
                world.op("ck 0 setcb cget:json:-,hget:json:-", tag="cfg")
                want_obs = "alg=%d key=1;%s;%s" % (a, PS.show_get("json", 0, exp_claims), PS.show_get("json", 0, exp_hdr))
                metas.append((len(world.ops), {"kind": "verify-generated", "key": name, "alg": alg, "sign": p_sign, "verify": p_ver,
                                               "want_obs": want_obs}))
                world.op("ck 0 verify @last", tag="verify")
                world.op("clock 5000", tag="cfg")
    # sizes: many members, deep nesting, long strings -- the token says what the builder was told at every size
    kbp = world.add_key(s + 8, pool.keys["oct32"], private=True, alg_attr="HS256")
    world.op("prov name " + hx(b"openssl"), tag="cfg")
    world.op("clock 5000", tag="cfg")
    shapes = []
    for n_ in ([0, 1, 7, 8, 9, 15, 16, 17, 31, 32, 33, 63, 64, 65, 127, 128, 129, 255, 256, 257] + ([1000, 5000] if thorough else [700])):
        shapes.append(("%d members" % n_, {"m%d" % i: i for i in range(n_)}))
    for d_ in ([1, 2, 7, 8, 9, 15, 16, 17, 31, 32, 33, 64, 100] + ([400] if thorough else [])):
        t_ = {"leaf": d_}
        for _ in range(d_):
            t_ = {"n": t_} if _ % 2 else {"a": [t_]}
        shapes.append(("nesting depth %d" % d_, t_))
    for l_ in [0, 1, 2, 15, 16, 17, 255, 256, 257, 1023, 1024, 1025, 4095, 4096, 4097] + ([65535, 65536, 65537, 300000] if thorough else [70000]):
        shapes.append(("string of %d characters" % l_, {"s": "x" * l_, "u": "é" * min(l_, 2000)}))
    for what, tree in shapes:
        world.op("bl 6 new", tag="cfg")
        world.op("bl 6 setkey 0 %d %d" % kbp, tag="cfg")
        world.op("bl 6 iat 0", tag="cfg")
        world.op("bl 6 cset json - %s 1" % hx(JL.dumps(tree)), tag="cfg")
        world.op("bl 6 hset json - %s 1" % hx(JL.dumps({"x": tree} if len(JL.dumps(tree)) < 20000 else {"x": 1})), tag="cfg")
        eh = {"alg": "HS256", "typ": "JWT", "x": tree if len(JL.dumps(tree)) < 20000 else 1}
        metas.append((len(world.ops), {"kind": "gen", "hdr": JL.jenc(eh), "pay": JL.jenc(tree), "alg": "HS256", "now": 5000, "seq": "size: " + what, "prog": None}))
        world.op("bl 6 gen", tag="gen")
        world.op("ck 6 new", tag="cfg")
        world.op("ck 6 setkey 0 %d %d" % kbp, tag="cfg")
        metas.append((len(world.ops), {"kind": "verify-generated", "key": "oct32", "alg": "HS256", "sign": "openssl", "verify": "openssl", "want_obs": None}))
        world.op("ck 6 verify @last", tag="verify")
    # integers of every width: what the builder was given is what the checker's callback reads back as an INT, and an
    # expiry far in the future is in the future
    for vi, v_ in enumerate([2 ** 31 - 1, 2 ** 31, 2 ** 32 + 1, 2 ** 53, 2 ** 53 + 1, 2 ** 62 + 12345, 2 ** 63 - 513, 2 ** 63 - 1, 1700000000123456789, -(2 ** 53) - 1, -(2 ** 63)]):
        world.op("bl 6 new", tag="cfg")
        world.op("bl 6 setkey 0 %d %d" % kbp, tag="cfg")
        world.op("bl 6 iat 0", tag="cfg")
        cl_ = {"big": v_, "exp": v_} if v_ > 5000 else {"big": v_}
        world.op("bl 6 cset json - %s 1" % hx(JL.dumps(cl_)), tag="cfg")
        world.op("bl 6 hset int %s %d 1" % (hx(b"seq"), v_), tag="cfg")
        metas.append((len(world.ops), {"kind": "gen", "hdr": JL.jenc({"alg": "HS256", "typ": "JWT", "seq": v_}), "pay": JL.jenc(cl_), "alg": "HS256", "now": 5000,
                                       "seq": "integer %d" % v_, "prog": None}))
        world.op("bl 6 gen", tag="gen")
        world.op("ck 6 new", tag="cfg")
        world.op("ck 6 setkey 0 %d %d" % kbp, tag="cfg")
        world.op("ck 6 setcb cget:int:%s,hget:int:%s,cget:int:%s" % (hx(b"big"), hx(b"seq"), hx(b"exp")), tag="cfg")
        want_obs = "alg=0 key=1;%s;%s;%s" % (PS.show_get("int", 0, v_), PS.show_get("int", 0, v_), PS.show_get("int", 0, v_) if "exp" in cl_ else PS.show_get("int", 2, None))
        metas.append((len(world.ops), {"kind": "verify-generated", "key": "oct32", "alg": "HS256", "sign": "openssl", "verify": "openssl", "want_obs": want_obs}))
        world.op("ck 6 verify @last", tag="verify")
    # member names: a header or claim may be called anything -- every first character of the printable range (names that sort
    # ahead of "alg" become the first member of the header and change how the token starts), a few longer and non-ASCII ones
    names_ = [chr(c_) + "n" for c_ in range(0x20, 0x7f)] + [chr(c_) for c_ in (0x21, 0x30, 0x7e)] + ["\u00e9", "\u20ac", "\x01x", "0", "00", "2fa", "#ref", "$schema", " padded", "-", "~"]
    for nm_ in names_:
        world.op("bl 6 new", tag="cfg")
        world.op("bl 6 setkey 0 %d %d" % kbp, tag="cfg")
        world.op("bl 6 iat 0", tag="cfg")
        world.op("bl 6 cset json - %s 1" % hx(JL.dumps({nm_: "c"})), tag="cfg")
        world.op("bl 6 hset json - %s 1" % hx(JL.dumps({nm_: "h"})), tag="cfg")
        metas.append((len(world.ops), {"kind": "gen", "hdr": JL.jenc({"alg": "HS256", "typ": "JWT", nm_: "h"}), "pay": JL.jenc({nm_: "c"}), "alg": "HS256", "now": 5000,
                                       "seq": "member name %r" % nm_, "prog": None}))
        world.op("bl 6 gen", tag="gen")
        world.op("ck 6 new", tag="cfg")
        world.op("ck 6 setkey 0 %d %d" % kbp, tag="cfg")
        metas.append((len(world.ops), {"kind": "verify-generated", "key": "oct32", "alg": "HS256", "sign": "openssl", "verify": "openssl", "want_obs": None}))
        world.op("ck 6 verify @last", tag="verify")
    # a session: ONE builder and ONE checker with a default key, a callback that picks another key for some
    # tokens only (the kid-with-fallback pattern); every token must come out under the key in force for it
    # and verify on the long-lived checker
    k1p = world.add_key(s, pool.keys["oct32"], private=True, alg_attr="HS256")
    k2p = world.add_key(s + 1, pool.keys["p256"], private=True, alg_attr="ES256")
    k2q = world.add_key(s + 2, pool.keys["p256"], private=False, alg_attr="ES256")
    for prov in provs:
        world.op("prov name " + hx(prov.encode()), tag="cfg")
        world.op("bl 5 new", tag="cfg")
        world.op("bl 5 setkey 0 %d %d" % k1p, tag="cfg")
        world.op("ck 5 new", tag="cfg")
        world.op("ck 5 setkey 0 %d %d" % k1p, tag="cfg")
        world.op("clock 5000", tag="cfg")
        pattern = [0, 1, 0, 0, 1, 1, 0] + [rng.randrange(2) for _ in range(20 if thorough else 6)]
        for i, over in enumerate(pattern):
            world.op("bl 5 setcb " + ("key:%d:%d,alg:7" % k2p if over else "-"), tag="cfg")
            world.op("ck 5 setcb " + ("key:%d:%d,alg:7" % k2q if over else "-"), tag="cfg")
            world.op("bl 5 cset int %s %d 1" % (hx(b"n"), i), tag="cfg")
            alg = "ES256" if over else "HS256"
            metas.append((len(world.ops), {"kind": "gen", "hdr": JL.jenc({"alg": alg, "typ": "JWT"}), "pay": JL.jenc({"iat": 5000, "n": i}), "alg": alg,
                                           "now": 5000, "seq": "session token %d under %s, key %s" % (i, prov, "from the callback" if over else "default"), "prog": None}))
            world.op("bl 5 gen", tag="gen")
            if i % 3 == 1:
                # the long-lived objects see failures in between (a damaged token, an empty one, a refused configuration call):
                # what they say about the next genuine token does not depend on it
                world.op("ck 5 verify " + hx([b"abc", b"e30.e30.AAAA", b""][(i // 3) % 3]), tag="cfg")
                world.op("ck 5 setkey 7 %d %d" % k1p, tag="cfg")
                world.op("bl 5 setkey 7 %d %d" % k1p, tag="cfg")
            metas.append((len(world.ops), {"kind": "verify-generated", "key": "p256" if over else "oct32", "alg": alg, "sign": prov, "verify": prov,
                                           "want_obs": None}))
            world.op("ck 5 verify @last", tag="verify")
    world.op("prov name " + hx(b"openssl"), tag="cfg")
    return metas


def falsify_roundtrip(m, out, eo=None):
    if m["kind"] == "gen":
        return falsify_builder(m, out)
    if m["kind"] == "verify-generated":
        c = c14_contract(out)
        if c:
            return "C14 contract broken: " + c
        if field(out, "rc") != "0":
            return "token generated with %s/%s under %s is rejected by a checker holding the public half under %s" % (
                m["key"], m["alg"], m["sign"], m["verify"])
        got = out.split(" cb=[", 1)[1].rsplit("]", 1)[0]
        if m["want_obs"] is not None and got != m["want_obs"]:
            return "header/claims read in the checker callback differ from what the builder was given plus alg/typ/iat/nbf/exp: got %s want %s" % (
                got[:300], m["want_obs"][:300])
    return None


# ---- C13b / C14b / C03b / C09b ---------------------------------------------------------
def builder_reuse_suite(world, pool, tier, rng):
    """sequences of generate calls (succeeding, failing in the callback, failing on the key) with and
    without error_clear on one builder; each result compared with a fresh identically configured builder"""
    metas = []
    good = world.add_key(80, pool.keys["oct32"], private=True, alg_attr="HS256")
    weak = world.add_key(81, K.Key("oct", k=b"short-key-16byte", bits=128), private=True, alg_attr="HS256")
    world.op("clock 7000", tag="cfg")
    # step alphabet: (lines applied to the builder before generating, label)
    steps = [("ok", ["setcb -", "setkey 0 %d %d" % good]), ("cbfail", ["setcb ret:5"]), ("weak-key", ["setcb -", "setkey 0 %d %d" % weak]),
             ("cb-badkey", ["setcb key:%d:%d,alg:7" % good]), ("unsigned", ["setcb -", "setkey 0"]), ("errclr", None)]
    maxlen = 4 if tier == "thorough" else 3
    seqs = [s for n in range(1, maxlen + 1) for s in itertools.product(range(len(steps)), repeat=n)]
    seqs += [tuple(rng.randrange(len(steps)) for _ in range(rng.randrange(5, 30))) for _ in range(200 if tier == "thorough" else 40)]
    for s in seqs:
        world.op("bl 0 new", tag="cfg")
        world.op("bl 0 setkey 0 %d %d" % good, tag="cfg")
        applied = []
        for i in s:
            label, lines = steps[i]
            if lines is None:
                world.op("bl 0 errclr", tag="cfg")
                continue
            for l in lines:
                world.op("bl 0 " + l, tag="cfg")
                applied.append(l)
            # fresh builder with the same configuration history
            world.op("bl 1 new", tag="cfg")
            world.op("bl 1 setkey 0 %d %d" % good, tag="cfg")
            for l in applied:
                world.op("bl 1 " + l, tag="cfg")
            ref = len(world.ops)
            metas.append((ref, {"kind": "gen-ref", "label": label}))
            world.op("bl 1 gen", tag="gen")
            metas.append((len(world.ops), {"kind": "gen-reused", "label": label, "ref": ref,
                                           "history": "/".join(steps[j][0] for j in s)[:80]}))
            world.op("bl 0 gen", tag="gen")
    return metas


def falsify_builder_reuse(m, out, eo):
    tokf, err, msg = field(out, "tok"), field(out, "err"), field(out, "msg")
    if (tokf == "NULL") != (err == "1") or (err == "1" and msg != "1") or (tokf != "NULL" and msg != "0"):
        return "generate returned %s with error flag %s, message-present %s (%s)" % ("NULL" if tokf == "NULL" else "a token", err, msg, m["label"])
    if m["kind"] == "gen-reused":
        ref = eo[m["ref"]]
        if field(ref, "tok") != tokf:
            return "a reused builder (history %s) generated %s..., a fresh identically configured one %s..." % (
                m["history"], tokf[:40], field(ref, "tok")[:40])
    want_fail = m["label"] in ("cbfail", "weak-key", "cb-badkey")
    if want_fail != (tokf == "NULL"):
        return "generate %s for step %s" % ("failed" if tokf == "NULL" else "succeeded", m["label"])
    return None


def builder_routes_suite(world, pool, tier, rng, extra_keys=None):
    """C03b/C02b/C09b: key via setkey / via callback / both; explicit alg none/equal/different; key alg
    attribute present/absent; private/public; every key type incl. weak ones"""
    metas = []
    allk = dict(pool.keys)
    allk.update(extra_keys or {})
    s = 200
    for name, key in allk.items():
        for attr in alg_attr_choices(key) + ["+meta"]:
            meta_extra = None
            if attr == "+meta":       # the same key with use/key_ops/kid that say "encryption": admission does not look at them
                if not key.admissible_algs():
                    continue
                attr, meta_extra = key.admissible_algs()[0], {"use": "enc", "key_ops": ["encrypt"], "kid": "enc-key"}
            for private in (True, False):
                if key.kind == "oct" and not private:
                    continue
                it = world.add_key(s, key, private=private, alg_attr=attr, extra=meta_extra)
                s += 1
                attr_ord = 0 if attr is None else K.ALG_ORD.get(attr, 15)
                adm = key.admissible_algs()
                cfg_algs = [0] + sorted({K.ALG_ORD[a] for a in adm[:2]} | {1, 7, 15} | ({attr_ord} if attr_ord else set()))
                for cfg_alg in cfg_algs:
                    for route in ("setkey", "cb-passive+setkey", "cb-key-only", "cb-key-alg", "setkey+cb-other", "setkey+cb-same-key-alg0", "setkey+cb-same-key-getalg",
                                  "setkey-pin+cb-key-with-own-alg"):
                        world.op("bl 0 new", tag="cfg")
                        admitted = private and ((attr_ord == 0 and cfg_alg != 0) or (attr_ord != 0 and (cfg_alg == 0 or cfg_alg == attr_ord)))
                        if route == "cb-passive+setkey":
                            # a callback that only looks is installed FIRST; setkey is judged by the same table, and so is what generate uses
                            world.op("bl 0 setcb getalg", tag="cfg")
                            metas.append((len(world.ops), {"kind": "setkey", "expect_rc": 0 if admitted else 1, "cfg_alg": cfg_alg,
                                                           "key": name + ("" if private else "-public") + " (a passive callback installed first)", "attr": attr}))
                            world.op("bl 0 setkey %d %d %d" % ((cfg_alg,) + it), tag="cfg")
                            eff_admitted, has_key, used = True, admitted, (cfg_alg or attr_ord)
                        elif route == "setkey":
                            metas.append((len(world.ops), {"kind": "setkey", "expect_rc": 0 if admitted else 1, "cfg_alg": cfg_alg,
                                                           "key": name + ("" if private else "-public"), "attr": attr}))
                            world.op("bl 0 setkey %d %d %d" % ((cfg_alg,) + it), tag="cfg")
                            eff_admitted, has_key, used = True, admitted, (cfg_alg or attr_ord)
                        elif route == "cb-key-only":
                            if cfg_alg != 0:
                                continue
                            world.op("bl 0 setcb key:%d:%d" % it, tag="cfg")
                            eff_admitted = private and attr_ord != 0
                            has_key, used = True, attr_ord
                        elif route == "cb-key-alg":
                            world.op("bl 0 setcb key:%d:%d,alg:%d" % (it + (cfg_alg,)), tag="cfg")
                            eff_admitted, has_key, used = admitted, True, (cfg_alg or attr_ord)
                        elif route == "setkey-pin+cb-key-with-own-alg":
                            # an explicit algorithm is pinned; the callback hands over a key whose JWK names ANOTHER algorithm and
                            # leaves config->alg alone: the pair is not in the admission table, generate must fail
                            others = [a_ for a_ in key.admissible_algs() if K.ALG_ORD[a_] != cfg_alg]
                            if attr is not None or not private or cfg_alg == 0 or K.ORD_ALG.get(cfg_alg) not in key.admissible_algs() or not others:
                                continue
                            it_b = world.add_key(s, key, private=True, alg_attr=others[0])
                            s += 1
                            world.op("bl 0 setkey %d %d %d" % ((cfg_alg,) + it), tag="cfg")
                            world.op("bl 0 setcb key:%d:%d" % it_b, tag="cfg")
                            eff_admitted, has_key, used = False, True, cfg_alg
                        elif route == "setkey+cb-same-key-alg0":
                            # the callback hands back the very item setkey installed and leaves the algorithm to the key
                            world.op("bl 0 setkey %d %d %d" % ((cfg_alg,) + it), tag="cfg")
                            world.op("bl 0 setcb key:%d:%d,alg:0" % it, tag="cfg")
                            eff_admitted, has_key, used = private and attr_ord != 0, True, attr_ord
                        elif route == "setkey+cb-same-key-getalg":
                            # ... or only reads the configuration and re-installs the same item
                            world.op("bl 0 setkey %d %d %d" % ((cfg_alg,) + it), tag="cfg")
                            world.op("bl 0 setcb getalg,key:%d:%d" % it, tag="cfg")
                            if admitted:
                                eff_admitted, has_key, used = True, True, (cfg_alg or attr_ord)
                            else:       # setkey was refused: the builder holds nothing, the callback supplies the key only
                                eff_admitted, has_key, used = private and attr_ord != 0, True, attr_ord
                        else:
                            world.op("bl 0 setkey %d %d %d" % ((cfg_alg,) + it), tag="cfg")
                            world.op("bl 0 setcb nokey,alg:0", tag="cfg")
                            eff_admitted, has_key, used = True, False, 0
                        alg_name = K.ORD_ALG.get(used)
                        if not has_key:
                            expect = "unsigned"
                        elif eff_admitted and alg_name in K.FAMILY and K.usable(key, alg_name):
                            expect = "signed:" + alg_name
                        else:
                            expect = "fail"
                        if alg_name == "ES256K" and False:
                            expect = "fail"
                        metas.append((len(world.ops), {"kind": "gen-route", "key": name, "private": private, "attr": attr, "cfg_alg": cfg_alg,
                                                       "route": route, "expect": expect}))
                        world.op("bl 0 gen", tag="gen")
    # the rarer key types and the RSA keys of unusual sizes, lighter: a builder that holds a usable key signs
    for provider in ("openssl", "gnutls"):
        world.op("prov name " + hx(provider.encode()), tag="cfg")
        for name, key, algs in pool.light(tier == "thorough"):
            it = world.add_key(s, key, private=True, alg_attr=None)
            s += 1
            for alg_name in algs:
                # the GnuTLS glue has no ES256K: a builder holding such a key returns no token there (never an unsigned one)
                no_es256k = alg_name == "ES256K" and provider == "gnutls"
                for route in ("setkey", "cb-key-alg") + (("setkey-jwk-alg",) if no_es256k else ()):
                    world.op("bl 0 new", tag="cfg")
                    if route == "setkey":
                        world.op("bl 0 setkey %d %d %d" % ((K.ALG_ORD[alg_name],) + it), tag="cfg")
                    elif route == "setkey-jwk-alg":
                        it2 = world.add_key(s, key, private=True, alg_attr="ES256K")
                        s += 1
                        world.op("bl 0 setkey 0 %d %d" % it2, tag="cfg")
                    else:
                        world.op("bl 0 setcb key:%d:%d,alg:%d" % (it + (K.ALG_ORD[alg_name],)), tag="cfg")
                    metas.append((len(world.ops), {"kind": "gen-route", "key": name, "private": True, "attr": None, "cfg_alg": K.ALG_ORD[alg_name],
                                                   "route": route + " under " + provider, "expect": "fail" if no_es256k else "signed:" + alg_name}))
                    world.op("bl 0 gen", tag="gen")
    world.op("prov name " + hx(b"openssl"), tag="cfg")
    return metas


def falsify_builder_routes(m, out, eo=None):
    from lib import unhx
    if m["kind"] == "setkey":
        return None if out == "rc=%d" % m["expect_rc"] else "builder setkey(%s, %s attr=%s) returned %s, the documented table says %d" % (
            m["cfg_alg"], m["key"], m["attr"], out, m["expect_rc"])
    tokf, err, msg = field(out, "tok"), field(out, "err"), field(out, "msg")
    if (tokf == "NULL") != (err == "1") or (err == "1" and msg != "1") or (tokf != "NULL" and msg != "0"):
        return "generate returned %s with error flag %s, message-present %s" % ("NULL" if tokf == "NULL" else "a token", err, msg)
    desc = {k: v for k, v in m.items() if k != "kind"}
    if tokf == "NULL":
        return None if m["expect"] == "fail" else "generate failed where the property expects a %s token: %s" % (m["expect"], desc)
    d = decode_token(unhx(tokf))
    if d is None:
        return "generated string is malformed: %s" % desc
    h, p, sig = d
    if m["expect"] == "fail":
        return "generate produced a token (alg %s, %d signature bytes) where it must fail: %s" % (h.get("alg"), len(sig), desc)
    if m["expect"] == "unsigned":
        if h.get("alg") != "none" or sig != b"":
            return "a builder without key emitted alg=%s with %d signature bytes: %s" % (h.get("alg"), len(sig), desc)
    else:
        want = m["expect"].split(":")[1]
        if h.get("alg") != want or sig == b"":
            return "a builder holding a key emitted alg=%s with %d signature bytes (pinned %s): %s" % (h.get("alg"), len(sig), want, desc)
    return None


# =====================================================================================
# JWK / keyring suites (C07, C08, C16)
# =====================================================================================
JSON_TYPES = [("null", None), ("int", 7), ("real", 1.5), ("true", True), ("array", ["AQAB"]), ("object", {"a": 1}),
              ("empty", ""), ("notb64", "!!!!"), ("len1", "A")]


def base_jwks(pool):
    out = []
    for name, key in pool.keys.items():
        out.append((name + "-priv", key.jwk(private=True, alg=key.admissible_algs()[0], extra={"kid": "k-" + name, "use": "sig", "key_ops": ["sign", "verify"]})))
        if key.kind != "oct":
            out.append((name + "-pub", key.jwk(private=False)))
    return out


def expect_items(tree):
    """how many items a document adds (None = not JSON: error, nothing added)"""
    if isinstance(tree, dict) and "keys" in tree:
        return len(tree["keys"]) if isinstance(tree["keys"], list) else 0
    return 1


def jwk_shapes_suite(world, pool, tier, rng):
    metas = []
    thorough = tier == "thorough"
    docs = []     # (label, bytes, via)
    for label, jwk in base_jwks(pool):
        docs.append((label + ":valid", json.dumps(jwk).encode(), "strn"))
        members = list(jwk.keys()) + ["zzz"]
        for m in members:
            j2 = dict(jwk)
            j2.pop(m, None)
            docs.append(("%s:%s=absent" % (label, m), json.dumps(j2).encode(), "strn"))
            for tname, tv in JSON_TYPES:
                j2 = dict(jwk)
                j2[m] = tv
                docs.append(("%s:%s=%s" % (label, m, tname), json.dumps(j2).encode(), "strn"))
            if isinstance(jwk.get(m), str) and len(jwk[m]) > 8:
                for tname, tv in (("truncated", jwk[m][:-4]), ("extended", jwk[m] + "AAAA"), ("flipped", ("B" if jwk[m][0] != "B" else "C") + jwk[m][1:])):
                    j2 = dict(jwk)
                    j2[m] = tv
                    docs.append(("%s:%s=%s" % (label, m, tname), json.dumps(j2).encode(), "strn"))
        if thorough:
            for _ in range(120):
                j2 = dict(jwk)
                for m in rng.sample(members, 2):
                    j2[m] = rng.choice(JSON_TYPES)[1]
                docs.append((label + ":pair", json.dumps(j2).encode(), "strn"))
    some = [j for _, j in base_jwks(pool)]
    # documents that are not JWK objects
    for label, text in [("notjson", b"{"), ("empty", b""), ("garbage", b"\xff\xfe{}"), ("scalar-int", b"5"), ("scalar-str", b'"x"'),
                        ("null", b"null"), ("array", b"[1,2]"), ("array-of-jwk", json.dumps(some[:2]).encode()), ("empty-object", b"{}"),
                        ("nested-set", json.dumps({"keys": [{"keys": some[:1]}]}).encode()), ("trailing", b"{} x"), ("dup-kty", b'{"kty":"oct","kty":"RSA","k":"AAAA"}'),
                        ("nul-inside", b'{"kty":"oct","k":"AAAA"}\x00{"x'), ("nul-in-string", b'{"kty":"oct\\u0000","k":"AAAA"}'), ("bom", b'\xef\xbb\xbf{}'),
                        ("deep", b"[" * 3000 + b"]" * 3000), ("bigint", b'{"kty":99999999999999999999}'), ("kty-case", b'{"kty":"rsa"}'),
                        ("kty-space", b'{"kty":"RSA "}'),
                        # rejected text that would be dangerous as a printf format (parse errors quote the input)
                        ("percent-s", b'"%s%s%s%s%s%s%s%s%s%s'), ("percent-n", b'{"a":%n%n%n%n}'), ("percent-n-str", b'"%n%n%n%n%n%n%n%n%n'),
                        ("percent-n-str2", b'{"kty": "%n%n%n%n%n%n%n%n%n'), ("percent-star", b'"%*d%*d%*d%*d%*d%s'), ("percent-wide", b'"%999999999d%s%n'), ("percent-lit", b'100%% legit'),
                        ("percent-kty", b'{"kty":"%s%s%s%n"}'), ("percent-line2", b'{"kty":"oct",\n\n "k":%s%s%s%s%s%s}')]:
        docs.append((label, text, "strn"))
        if label.startswith("percent"):
            for via in ("str", "create", "fp", "file"):
                docs.append((label + ":" + via, text, via))
    for tname, tv in JSON_TYPES + [("emptyarr", []), ("mixed", [some[0], 5, None, "x", {}, some[1]])]:
        docs.append(("keys=" + tname, json.dumps({"keys": tv}).encode(), "strn"))
    for n in (0, 1, 2, 10, 50):
        docs.append(("keys[%d]" % n, json.dumps({"keys": [some[i % len(some)] for i in range(n)]}).encode(), "strn"))
    # entry points
    for via in ("str", "create", "file", "fp", "strn"):
        docs.append(("via-" + via, json.dumps(some[0]).encode(), via))
        docs.append(("via-%s-bad" % via, b"{not json", via))
        docs.append(("via-%s-nul" % via, json.dumps(some[0]).encode() + b"\x00trailing", via))
        docs.append(("via-%s-set" % via, json.dumps({"keys": some[:3]}).encode(), via))
    docs.append(("via-str-NULL", None, "str"))
    # a document in which an object repeats a member name is still JSON (the last one counts), through every entry point alike
    dupdoc = json.dumps({"keys": some[:3]}).encode()
    k0 = json.dumps(some[0])
    dup1 = ('{"keys":[' + k0[:-1] + ',"kid":"first","kid":"second"},' + json.dumps(some[1]) + "," + json.dumps(some[2]) + "]}").encode()
    dup2 = ('{"keys":[],"keys":[' + json.dumps(some[0]) + "," + json.dumps(some[1]) + "]}").encode()
    for via in ("strn", "str", "create", "file", "fp", "pipe"):
        docs.append(("duplicate member name inside a key", dup1, via))
        docs.append(("duplicate `keys` member", dup2, via))
    # a stream that cannot seek (a pipe from another process), and documents of every size through every entry point
    for label_, text_ in (("via-pipe", json.dumps(some[0]).encode()), ("via-pipe-bad", b"{not json"), ("via-pipe-set", json.dumps({"keys": some[:3]}).encode()),
                          ("via-pipe-empty", b"")):
        docs.append((label_, text_, "pipe"))
    for T in sizes([100, 1000, 4094, 4095, 4096, 4097, 4098, 8191, 8192, 8193, 16384, 65535, 65536, 65537] + ([1000000] if thorough else [200000]), lo=60):
        ks_ = []
        while len(json.dumps({"keys": ks_ + [some[len(ks_) % len(some)]], "pad": ""})) <= T and len(ks_) < 400:
            ks_.append(some[len(ks_) % len(some)])
        base_ = json.dumps({"keys": ks_, "pad": ""})
        text_ = json.dumps({"keys": ks_, "pad": "p" * (T - len(base_))}).encode()
        for via in ("pipe", "fp", "file", "strn"):
            docs.append(("document of %d bytes" % len(text_), text_, via))
    for _ in range(3000 if thorough else 300):
        b = bytearray(json.dumps(rng.choice(some)).encode())
        for _ in range(rng.randrange(1, 4)):
            i = rng.randrange(len(b))
            r = rng.random()
            if r < 0.4:
                b[i] = rng.choice(b'"{}[],:0a\\')
            elif r < 0.7:
                del b[i]
            else:
                b.insert(i, rng.choice(b'"{}[],:0a\\ \x00\x80'))
        docs.append(("mutated-text", bytes(b), "strn"))
    for di, (label, text, via) in enumerate(docs):
        s = 300 + (di % 600)
        world.op("jwks %d del" % s, cmp=False, tag="cfg")
        if via in ("str", "create") and text is not None:
            t = text.split(b"\0")[0]
        else:
            t = text
        ok, tree = JL.loads(t, decode_any=True) if t is not None else (False, None)
        ni = expect_items(tree) if ok else 0
        pos = len(world.ops) + (len(world.keyorc_lines(tree)) if ok else 0)
        world.load_doc(s, text, via)
        metas.append((pos, {"kind": "load", "label": label, "via": via, "json": ok, "n": ni, "null": text is None}))
        if text is None:
            continue
        for i in range(min(ni, 4) + 1):
            metas.append((len(world.ops), {"kind": "item", "label": label, "idx": i, "exists": i < ni}))
            world.op("jwks %d item %d" % (s, i), tag="item")
        world.op("jwks %d errany" % s, tag="item")
    # a set that has seen a failed load is still a set: what is loaded next goes in, key for key, through every entry point
    # (the set's own error stays until it is cleared; it says nothing about the keys that arrive afterwards)
    good3 = json.dumps({"keys": some[:3]}).encode()
    for vi, via in enumerate(("strn", "str", "file", "fp", "pipe", "create")):
        for bad_ in (b"{nope", b"", b'{"keys":[' ):
            s = 295 - vi
            world.op("jwks %d del" % s, cmp=False, tag="cfg")
            world.load_doc(s, b'{"keys":[]}', "strn", tag="cfg")
            world.load_doc(s, bad_, via if via != "create" else "strn", tag="cfg")
            ok, tree = JL.loads(good3, decode_any=True)
            pos = len(world.ops) + len(world.keyorc_lines(tree))
            world.load_doc(s, good3, via)
            metas.append((pos, {"kind": "load-after", "label": "three keys after a failed load of %r (%s)" % (bad_, via), "want": "err=1 emsg=1 n=3"}))
            for i in range(4):
                metas.append((len(world.ops), {"kind": "item", "label": "three keys after a failed load (%s)" % via, "idx": i, "exists": i < 3}))
                world.op("jwks %d item %d" % (s, i), tag="item")
            world.op("jwks %d errclr" % s, tag="cfg")
            one = json.dumps(some[3 % len(some)]).encode()
            ok, tree = JL.loads(one, decode_any=True)
            pos = len(world.ops) + len(world.keyorc_lines(tree))
            world.load_doc(s, one, via)
            metas.append((pos, {"kind": "load-after", "label": "a fourth key after the error was cleared (%s)" % via, "want": "err=0 emsg=0 n=4"}))
    return metas


def falsify_jwk_shapes(m, out, eo=None):
    if m["kind"] == "load-after":
        return None if out == m["want"] else "%s: the set answers `%s`, expected `%s`" % (m["label"], out, m["want"])
    if m["kind"] == "load":
        if m["null"]:
            return None if out in ("NULL", "noset") else "loading a NULL string returned %s" % out
        err, n = field(out, "err"), field(out, "n")
        if err is None:
            return "load of %s (%s) returned %s" % (m["label"], m["via"], out)
        if not m["json"]:
            if err != "1" or n != "0" or field(out, "emsg") != "1":
                return "text that is not JSON (%s): set error=%s msg=%s items=%s" % (m["label"], err, field(out, "emsg"), n)
        elif n != str(m["n"]) or err != "0":
            return "document %s: expected %d item(s) and no set error, got n=%s err=%s" % (m["label"], m["n"], n, err)
    else:
        if not m["exists"]:
            return None if out == "none" else "item beyond the expected count exists: %s" % out
        if out == "none":
            return "expected item %d of %s is missing" % (m["idx"], m["label"])
        err, emsg = field(out, "err"), field(out, "emsg")
        if err == "1":
            if emsg != "1":
                return "item of %s flagged bad with an empty message" % m["label"]
        else:
            usable_ = field(out, "kty") != "0" and (field(out, "pem") == "1" or field(out, "oct") not in ("NULL", None))
            if not usable_:
                return "item of %s reports no error but is not a usable key: %s" % (m["label"], out)
            if emsg != "0":
                return "item without error carries a message"
    return None


def jwk_import_suite(world, pool, tier, rng):
    """C08: freshly generated keys of every type in several JWK spellings; imported item compared with
    what the JWK states; PEM compared component-wise through the independent oracle"""
    metas = []
    thorough = tier == "thorough"
    specs = [("rsa", 2048), ("rsa", 2047), ("rsapss", 2048), ("ec", "P-256"), ("ec", "P-384"), ("ec", "P-521"), ("ec", "secp256k1"),
             ("okp", "ED25519"), ("okp", "ED448")]
    if thorough:
        specs += [("rsa", 3072), ("rsa", 4096)]
    keys_ = [(k, K.gen_key(*k, workdir=world.ctx.scratch)) for k in specs for _ in range(4 if thorough and k[0] != "rsa" else 1)]
    for n in ([1, 2, 16, 31, 32, 33, 64, 100, 255, 256, 512] if thorough else [1, 16, 32, 64, 512]):
        keys_.append((("oct", n), K.Key("oct", k=bytes(rng.randrange(256) for _ in range(n)), bits=8 * n)))
    # octet strings are not numbers: leading and trailing zero octets are key material
    for kb in (b"\x00", b"\x00\x00\x00", b"A\x00", b"\x00A", bytes(rng.randrange(1, 256) for _ in range(31)) + b"\x00", b"\x00" * 32,
               bytes(rng.randrange(1, 256) for _ in range(99)) + b"\x00", b"\x00" + bytes(rng.randrange(1, 256) for _ in range(63))):
        keys_.append((("oct", "zeros-%d" % len(kb)), K.Key("oct", k=kb, bits=8 * len(kb))))
    s = 1000
    OPS = {"sign": 1, "verify": 2, "encrypt": 4, "decrypt": 8, "wrapKey": 16, "unwrapKey": 32, "deriveKey": 64, "deriveBits": 128}
    # things that fail inside the crypto library shortly before a good key is imported: what an import makes of a
    # JWK must not depend on what the process (thread) went through before
    rsa_it = world.add_key(999, pool.keys["rsa2048"], private=False, alg_attr="RS256")
    world.op("ck 9 new", tag="cfg")
    world.op("ck 9 setkey 0 %d %d" % rsa_it, tag="cfg")
    bad_tok = seg({"alg": "RS256"}) + b"." + seg({}) + b"." + K.b64u(bytes(rng.randrange(256) for _ in range(256))).encode()
    bad_ec = {"kty": "EC", "crv": "P-256", "x": K.b64u(bytes([1] * 32)), "y": K.b64u(bytes([2] * 32))}
    bad_rsa = {"kty": "RSA", "n": "AQAB", "e": "AA"}
    vcount = 0
    for spec, key in keys_:
        variants = []
        for private in ((True, False) if key.kind != "oct" else (True,)):
            for alg in [None] + key.admissible_algs()[:2]:
                for pad in ((True, False) if key.kind == "ec" else (True,)):
                    extra = {}
                    r = rng.random()
                    if r < 0.5:
                        extra["kid"] = rng.choice(["", "k1", "ключ", "a" * 300])
                    if rng.random() < 0.5:
                        extra["use"] = rng.choice(["sig", "enc", "other", "SIG"])
                    if rng.random() < 0.5:
                        extra["key_ops"] = rng.sample(list(OPS) + ["bogus", "Sign"], rng.randrange(0, 4))
                    if rng.random() < 0.5:
                        # members that do not belong to the key type, or that nobody knows
                        foreign = {"oct": {"n": "AQAB", "crv": "P-256", "x5c": ["x"]}, "rsa": {"k": "AAAA", "crv": "P-256", "x": "AAAA"},
                                   "rsapss": {"k": "AAAA", "y": 5}, "ec": {"n": "AQAB", "k": None, "p": "AQ"}, "okp": {"y": "AAAA", "n": 1, "e": "AQAB"}}[key.kind]
                        extra.update(foreign)
                        extra["zz-unknown"] = {"deep": [1, 2, {"x": None}]}
                    variants.append((private, alg, pad, extra))
        variants = [v + (0,) for v in variants] + [v + (z,) for v in variants[:4] for z in (1, 2) if key.kind not in ("oct", "okp")]
        # the same RSA private key written with its primes in the other order (RFC 7518 does not fix one): p<->q, dp<->dq, qi recomputed
        variants += [v[:4] + (9,) for v in variants if key.kind in ("rsa", "rsapss") and v[0] and v[4] == 0][:3]
        for private, alg, pad, extra, zeropad in variants:
            jwk = key.jwk(private=private, alg=alg, extra=extra, pad=pad)
            if key.kind == "rsa" and not pad:
                continue
            if zeropad == 9:
                enc_ = lambda v_: K.b64u(K.int_bytes(v_))
                jwk.update({"p": enc_(key.q), "q": enc_(key.p), "dp": enc_(key.dq), "dq": enc_(key.dp), "qi": enc_(pow(key.p, -1, key.q))})
            elif zeropad:
                # every integer member with one or two extra leading zero octets (what e.g. Java's BigInteger emits)
                for mname in ("n", "e", "d", "p", "q", "dp", "dq", "qi", "x", "y"):
                    if key.kind != "okp" and isinstance(jwk.get(mname), str):
                        jwk[mname] = K.b64u(b"\x00" * zeropad + K.b64u_dec(jwk[mname]))
            world.op("jwks %d del" % s, cmp=False, tag="cfg")
            vcount += 1
            idx = 0
            if vcount % 3 == 1:
                world.op("ck 9 verify " + hx(bad_tok), cmp=False, tag="cfg")       # a failed RSA verification first
                world.load_doc(s, json.dumps(jwk).encode(), "strn")
            elif vcount % 3 == 2:
                world.load_doc(s, json.dumps({"keys": [bad_ec, bad_rsa, jwk]}).encode(), "strn")   # after two keys the library refuses
                idx = 2
            else:
                world.load_doc(s, json.dumps(jwk).encode(), "strn")
            ops = 0
            for o in extra.get("key_ops", []):
                ops |= OPS.get(o, 0)
            kid = extra.get("kid") or None
            want = {"kty": {"ec": 1, "rsa": 2, "rsapss": 2, "okp": 3, "oct": 4}[key.kind], "alg": K.ALG_ORD[alg] if alg else 0, "bits": key.bits,
                    "priv": 1 if (private or key.kind == "oct") else 0, "err": 0, "emsg": 0, "kid": hx(kid.encode()) if kid else "NULL",
                    "use": {"sig": 1, "enc": 2}.get(extra.get("use"), 0), "ops": ops,
                    "crv": hx(key.crv.encode()) if key.kind in ("ec", "okp") else "NULL", "pem": 0 if key.kind == "oct" else 1,
                    "oct": hx(key.k) if key.kind == "oct" else "NULL"}
            metas.append((len(world.ops), {"kind": "import", "key": str(spec), "private": private, "alg": alg, "pad": pad, "zeropad": zeropad,
                                           "extra": sorted(extra), "want": want}))
            world.op("jwks %d item %d" % (s, idx), tag="item")
            if key.kind != "oct":
                metas.append((len(world.ops), {"kind": "pem", "key": str(spec), "private": private, "keyobj": key}))
                world.op("jwks %d pem %d" % (s, idx), cmp=False, tag="item")
            s += 1
            if s > 1020:
                s = 1000
    # public RSA keys of every size the library's back end takes (OpenSSL: to 16384 bits), on both sides of the points where
    # the base64url text of the modulus passes 1024, 2048, 2730 characters: the import does not test primality, so an odd
    # number of the right size stands for a modulus
    for bits in [6144, 8184, 8192, 8200, 12288, 12289, 12296, 15360, 16376, 16384]:
        n_ = (1 << (bits - 1)) | rng.getrandbits(bits - 1) | 1
        syn = K.Key("rsa", n=n_, e=65537, bits=bits)
        world.op("jwks %d del" % s, cmp=False, tag="cfg")
        world.load_doc(s, json.dumps(syn.jwk(private=False)).encode(), "strn")
        want = {"kty": 2, "alg": 0, "bits": bits, "priv": 0, "err": 0, "emsg": 0, "kid": "NULL", "use": 0, "ops": 0, "crv": "NULL", "pem": 1, "oct": "NULL"}
        metas.append((len(world.ops), {"kind": "import", "key": "public RSA JWK with a %d-bit modulus" % bits, "private": False, "alg": None, "pad": True, "zeropad": 0,
                                       "extra": [], "want": want}))
        world.op("jwks %d item 0" % s, tag="item")
        s += 1
        if s > 1020:
            s = 1000
    # "alg" is a name compared as a whole: a registered name with something appended, cut short or in another case is no algorithm
    # of the library (the item says so: alg = INVAL, and stays a usable key)
    okey = K.Key("oct", k=bytes(rng.randrange(256) for _ in range(64)), bits=512)
    seen_ = set()
    for nm_ in ALG_NAMES:
        for var_ in (nm_ + "-R", nm_ + "R", nm_ + "K", nm_ + "0", nm_ + " ", " " + nm_, nm_[:-1], nm_.lower(), nm_.upper(), nm_ + nm_, nm_ + "\u0001",
                     nm_ + "x" * 256, nm_ + " " * 512, nm_ + "K" * 65536):
            if var_ in seen_:
                continue
            seen_.add(var_)
            world.op("jwks %d del" % s, cmp=False, tag="cfg")
            world.load_doc(s, json.dumps(dict(okey.jwk(), alg=var_)).encode(), "strn")
            want = {"kty": 4, "alg": K.ALG_ORD.get(var_, len(ALG_NAMES)), "bits": 512, "priv": 1, "err": 0, "emsg": 0, "kid": "NULL", "use": 0, "ops": 0,
                    "crv": "NULL", "pem": 0, "oct": hx(okey.k)}
            metas.append((len(world.ops), {"kind": "import", "key": "oct JWK with \"alg\": %r" % var_, "private": True, "alg": var_, "pad": True, "zeropad": 0,
                                           "extra": [], "want": want}))
            world.op("jwks %d item 0" % s, tag="item")
            s += 1
            if s > 1020:
                s = 1000
    return metas


def falsify_jwk_import(m, out, eo=None, _orc=[None]):
    if m["kind"] == "import":
        got = dict(t.split("=", 1) for t in out.split() if "=" in t)
        bad = {k: (got.get(k), str(v)) for k, v in m["want"].items() if got.get(k) != str(v)}
        if bad:
            return "imported item differs from what the JWK states (%s private=%s alg=%s pad=%s extra=%s): %s" % (
                m["key"], m["private"], m["alg"], m["pad"], m["extra"], bad)
    elif m["kind"] == "pem":
        from lib import unhx
        orc = falsify_jwk_import.oracle
        pem = unhx(out)
        if pem is None:
            return "no PEM for an imported %s key" % m["key"]
        try:
            kid = orc.add_key(pem)
        except RuntimeError:
            return "PEM of the imported %s key does not parse" % m["key"]
        key = m["keyobj"]
        if key.kind != "rsapss":      # a JWK cannot say "PSS only": the import is a plain RSA key with the same n, e
            ref = orc.add_key(key.pem(m["private"]))
            if orc._ask("eq %d %d" % (kid, ref)) != "1":
                return "imported %s key has different public components than the key the JWK encodes" % m["key"]
        alg = key.admissible_algs()[0]
        if m["private"] and key.kind in ("rsa", "rsapss"):
            # every number of the private key, not only what a signature exercises (OpenSSL silently falls back
            # from a wrong CRT set to the plain exponentiation, so a signature does not show transposed members)
            nums = K.rsa_private_numbers(pem)
            if nums is None:
                return "PEM of the imported private %s key is not a PKCS#8/PKCS#1 RSA private key" % m["key"]
            n_, e_, d_, p_, q_, dp_, dq_, qi_ = nums
            if (n_, e_, d_) != (key.n, key.e, key.d):
                return "imported RSA private key has another n, e or d than the JWK"
            if p_ or q_ or dp_ or dq_ or qi_:
                # whatever CRT representation the import keeps must be a consistent one for this key
                if p_ * q_ != n_ or dp_ != d_ % (p_ - 1) or dq_ != d_ % (q_ - 1) or (qi_ * q_) % p_ != 1:
                    bad = [nm for nm, ok_ in (("p*q=n", p_ * q_ == n_), ("dp=d mod p-1", p_ > 1 and dp_ == d_ % (p_ - 1)),
                                              ("dq=d mod q-1", q_ > 1 and dq_ == d_ % (q_ - 1)), ("qi*q=1 mod p", p_ > 0 and (qi_ * q_) % p_ == 1)) if not ok_]
                    return "imported RSA private key carries CRT numbers that do not belong together (%s): JWK members reached the wrong numbers of the key" % ", ".join(bad)
        if m["private"]:
            sig = orc.sign(kid, alg, b"probe")
            pub = orc.add_key(key.pem(False))
            if sig is None or not orc.verify(pub, alg, b"probe", sig):
                return "private components of the imported %s key do not match (signature by the import fails under the original public key)" % m["key"]
        else:
            prv = orc.add_key(key.pem(True))
            sig = orc.sign(prv, alg, b"probe")
            if sig is None or not orc.verify(kid, alg, b"probe", sig):
                return "public components of the imported %s key do not match (a signature by the original key fails under the import)" % m["key"]
    return None


def keyring_suite(world, pool, tier, rng):
    """C16: every operation sequence up to a length over loads and removals, list model as falsifier"""
    metas = []
    good = pool.keys["oct32"].jwk(extra={"kid": "k1"})
    good2 = pool.keys["p256"].jwk(private=False, extra={"kid": "k2"})
    bad = {"kty": "oct", "k": "", "kid": "kbad"}
    # an item that is flagged as errored although its key material was parsed and attached (non-string alg):
    # removing it must release that material too (LeakSanitizer watches)
    badmat = pool.keys["rsa2048"].jwk(private=True, extra={"kid": "kbm", "alg": 5})
    docs = {"good": json.dumps(good).encode(), "bad": json.dumps(bad).encode(),
            "mixed3": json.dumps({"keys": [good2, bad, dict(good, kid="k1")]}).encode(), "nonjson": b"{nope",
            "badmat": json.dumps(badmat).encode(),
            # members of "keys" that are not objects are items too (errored, without a kid): positions and counts include them
            "nonobj": json.dumps({"keys": [good2, 5, None, "x", [1], {}, dict(good, kid="k1")]}).encode()}
    # (kid, errored) per doc
    content = {"good": [("k1", False)], "bad": [("kbad", True)], "mixed3": [("k2", False), ("kbad", True), ("k1", False)], "nonjson": None,
               "badmat": [(None, True)], "nonobj": [("k2", False)] + [(None, True)] * 5 + [("k1", False)]}      # the values of a key whose alg is not a string are not read further: no kid
    alphabet = [("load", d) for d in docs] + [("free", 0), ("free", 1), ("free", "last"), ("free", 99), ("freebad",), ("freeall",),
                                              ("find", "k1"), ("find", "kbad"), ("find", "nope"), ("find", ""), ("errclr",)]
    maxlen = 4 if tier == "thorough" else 3
    seqs = [s for n in range(1, maxlen + 1) for s in itertools.product(range(len(alphabet)), repeat=n)]
    if tier != "thorough":
        seqs = [s for s in seqs if len(s) < 3] + rng.sample([s for s in seqs if len(s) == 3], 700)
    else:
        seqs = [s for s in seqs if len(s) < 4] + rng.sample([s for s in seqs if len(s) == 4], 6000)
    seqs += [tuple(rng.randrange(len(alphabet)) for _ in range(rng.randrange(5, 200))) for _ in range(60 if tier == "thorough" else 12)]
    S0 = 900
    for si, sq in enumerate(seqs):
        world.op("jwks %d del" % S0, cmp=False, tag="cfg")
        world.load_doc(S0, b'{"keys":[]}', "strn", tag="cfg")       # an empty set to start from
        lst, seterr, step_no = [], 0, 0
        for ai in sq:
            a = alphabet[ai]
            if a[0] == "load":
                c = content[a[1]]
                if c is None:
                    seterr = 1
                else:
                    lst = lst + list(c)
                pos = len(world.ops) + len(world.keyorc_lines(JL.loads(docs[a[1]], decode_any=True)[1])) if c is not None else len(world.ops)
                world.load_doc(S0, docs[a[1]], "strn")
                metas.append((pos, {"kind": "kr", "op": "load " + a[1], "want": "err=%d emsg=%d n=%d" % (seterr, seterr, len(lst))}))
            elif a[0] == "free":
                idx = len(lst) - 1 if a[1] == "last" else a[1]
                if idx < 0:
                    idx = 0
                ok = 0 <= idx < len(lst)
                if ok:
                    lst = lst[:idx] + lst[idx + 1:]
                metas.append((len(world.ops), {"kind": "kr", "op": "free %d" % idx, "want": "1" if ok else "0"}))
                world.op("jwks %d free %d" % (S0, idx), tag="kr")
            elif a[0] == "freebad":
                nb = sum(1 for _, e in lst if e)
                lst = [x for x in lst if not x[1]]
                metas.append((len(world.ops), {"kind": "kr", "op": "freebad", "want": str(nb)}))
                world.op("jwks %d freebad" % S0, tag="kr")
            elif a[0] == "freeall":
                metas.append((len(world.ops), {"kind": "kr", "op": "freeall", "want": str(len(lst))}))
                lst = []
                world.op("jwks %d freeall" % S0, tag="kr")
            elif a[0] == "find":
                want = next((i for i, (k, _) in enumerate(lst) if k == a[1] and a[1] != ""), -1)
                metas.append((len(world.ops), {"kind": "kr", "op": "find " + a[1], "want": str(want)}))
                world.op("jwks %d find %s" % (S0, hx(a[1].encode())), tag="kr")
            else:
                seterr = 0
                world.op("jwks %d errclr" % S0, tag="kr")
            # probes after every step
            metas.append((len(world.ops), {"kind": "kr", "op": "count", "want": str(len(lst))}))
            world.op("jwks %d count" % S0, tag="kr")
            metas.append((len(world.ops), {"kind": "kr", "op": "errany", "want": str(seterr + sum(1 for _, e in lst if e))}))
            world.op("jwks %d errany" % S0, tag="kr")
            idxs = sorted({0, len(lst) // 2, len(lst) - 1, len(lst)} - {-1})
            step_no += 1
            if (step_no + si) % 2:
                idxs = idxs[::-1]        # alternate ascending / descending: the first probe after a removal is sometimes a high index
            for i in idxs:
                w = "none" if i >= len(lst) else ("kid=%s err=%d" % (hx(lst[i][0].encode()) if lst[i][0] is not None else "NULL", 1 if lst[i][1] else 0))
                metas.append((len(world.ops), {"kind": "kr-item", "op": "get %d" % i, "want": w}))
                world.op("jwks %d item %d" % (S0, i), tag="kr")
    # keyrings of every size around the powers of two (and a big one): count, first / middle / last / one-past item,
    # lookups of the first, middle, last and a missing kid, removal in the middle, lookups again
    ksizes = sizes([0, 1, 2, 3, 7, 8, 9, 15, 16, 17, 31, 32, 33, 63, 64, 65, 100, 127, 128, 129, 255, 256, 257] + ([1000, 4096] if tier == "thorough" else [600]), hi=5000)
    kb = pool.keys["oct32"]
    for n in ksizes:
        world.op("jwks %d del" % S0, cmp=False, tag="cfg")
        kids = ["kid-%d" % i for i in range(n)]
        doc = json.dumps({"keys": [kb.jwk(extra={"kid": k_}) for k_ in kids]}).encode()
        world.load_doc(S0, doc, "strn", tag="cfg")
        lst = [(k_, False) for k_ in kids]

        def probe(tag_):
            metas.append((len(world.ops), {"kind": "kr", "op": "count (%d keys%s)" % (n, tag_), "want": str(len(lst))}))
            world.op("jwks %d count" % S0, tag="kr")
            for i in sorted({0, 1, len(lst) // 2, len(lst) - 2, len(lst) - 1, len(lst)} - {-1, -2}):
                w = "none" if i >= len(lst) else "kid=%s err=0" % hx(lst[i][0].encode())
                metas.append((len(world.ops), {"kind": "kr-item", "op": "get %d of %d%s" % (i, len(lst), tag_), "want": w}))
                world.op("jwks %d item %d" % (S0, i), tag="kr")
            for k_ in ([lst[0][0], lst[len(lst) // 2][0], lst[-1][0]] if lst else []) + ["kid-missing", "kid-%d" % n]:
                want = next((i for i, (kk, _) in enumerate(lst) if kk == k_), -1)
                metas.append((len(world.ops), {"kind": "kr", "op": "find %s among %d%s" % (k_, len(lst), tag_), "want": str(want)}))
                world.op("jwks %d find %s" % (S0, hx(k_.encode())), tag="kr")
        probe("")
        # indices that do not fit 32 bits: beyond the end is beyond the end, whatever the low bits say
        if n in (1, 3, 17, 64, 600, 1000):
            for big in [2 ** 31 - 1, 2 ** 31, 2 ** 32 - 1, 2 ** 32, 2 ** 32 + 1, 2 ** 32 + n // 2, 2 ** 32 + n - 1, 2 ** 33, 3 * 2 ** 32 + n // 2, 2 ** 63 - 1, 2 ** 63,
                        2 ** 63 + n // 2, 2 ** 64 - 2 ** 32 + n // 2, 2 ** 64 - 1]:
                metas.append((len(world.ops), {"kind": "kr-item", "op": "get %d of %d" % (big, len(lst)), "want": "none"}))
                world.op("jwks %d item %d" % (S0, big), tag="kr")
                metas.append((len(world.ops), {"kind": "kr", "op": "free %d of %d" % (big, len(lst)), "want": "0"}))
                world.op("jwks %d free %d" % (S0, big), tag="kr")
            probe(" after removals beyond the end")
        if lst:
            idx = len(lst) // 2
            metas.append((len(world.ops), {"kind": "kr", "op": "free %d of %d" % (idx, len(lst)), "want": "1"}))
            world.op("jwks %d free %d" % (S0, idx), tag="kr")
            lst = lst[:idx] + lst[idx + 1:]
            probe(" after a removal")
    # key ids of every length, in pairs that differ in their last character only: each is found where it is, a proper
    # prefix of a key id is nobody's key id, and the item says the whole id
    for L in sizes([1, 2, 100, 200] + STD_SIZES + [5000, 70000], lo=1, hi=80000):
        world.op("jwks %d del" % S0, cmp=False, tag="cfg")
        base = ("k" * (L - 1))
        kids = [base + "a", base + "b", "other"]
        doc = json.dumps({"keys": [kb.jwk(extra={"kid": k_}) for k_ in kids]}).encode()
        world.load_doc(S0, doc, "strn", tag="cfg")
        for pos_, k_ in enumerate(kids):
            metas.append((len(world.ops), {"kind": "kr", "op": "find a key id of %d characters" % len(k_), "want": str(pos_)}))
            world.op("jwks %d find %s" % (S0, hx(k_.encode())), tag="kr")
            metas.append((len(world.ops), {"kind": "kr-item", "op": "get %d (key id of %d characters)" % (pos_, len(k_)), "want": "kid=%s err=0" % hx(k_.encode())}))
            world.op("jwks %d item %d" % (S0, pos_), tag="kr")
        for probe_ in ([base] if L > 1 else []) + [base + "c", base + "ab", kids[0][:255], kids[0][:256]]:
            if probe_ in kids or not probe_:
                continue
            metas.append((len(world.ops), {"kind": "kr", "op": "find a %d-character text that is no key's id among ids of %d characters" % (len(probe_), L), "want": "-1"}))
            world.op("jwks %d find %s" % (S0, hx(probe_.encode())), tag="kr")
    world.op("jwks %d del" % S0, cmp=False, tag="cfg")
    return metas


def falsify_keyring(m, out, eo=None):
    if m["kind"] == "kr":
        if out != m["want"]:
            return "%s answered `%s`, an ordered list gives `%s`" % (m["op"], out, m["want"])
    else:
        if m["want"] == "none":
            return None if out == "none" else "%s returned an item beyond the end of the list" % m["op"]
        got = "kid=%s err=%s" % (field(out, "kid"), field(out, "err"))
        if got != m["want"]:
            return "%s returned `%s`, the list holds `%s` there" % (m["op"], got, m["want"])
    return None


# =====================================================================================
# C12: providers
# =====================================================================================
PROVIDER_NAMES = [b"openssl", b"gnutls"]


def providers_suite(world, pool, tier, rng):
    metas = []
    # --- the switch: names incl. near-misses, ids, from every current provider
    names = [b"openssl", b"gnutls", b"openssl ", b" openssl", b"OpenSSL", b"OPENSSL", b"gnutl", b"gnutlss", b"", b"mbedtls", b"any",
             b"gnutls\x01", b"open\xc5\x9fsl", b"o", b"x" * 300, b"openssl" + b"l" * 250]
    # a provider name followed by 255, 256, 257, ... further characters is still another name (lengths that agree modulo 2^8, 2^16)
    names += [nm_ + pad_ * n_ for nm_ in PROVIDER_NAMES for pad_ in (b"x", b" ") for n_ in (255, 256, 257, 512, 1024, 65536)][:: (1 if tier == "thorough" else 1)]
    ids = [0, 1, 2, 3, 4, 5, 255, 65536, 2 ** 31 - 1, -1]
    for start in PROVIDER_NAMES:
        for n in names:
            world.op("prov name " + hx(start), tag="cfg")
            want_ok = n in PROVIDER_NAMES
            cur = n if want_ok else start
            metas.append((len(world.ops), {"kind": "switch", "by": "name", "arg": n[:40], "start": start.decode(),
                                           "want": "rc=%d cur=%s id=%d" % (0 if want_ok else 1, cur.decode(), 1 + PROVIDER_NAMES.index(cur))}))
            world.op("prov name " + hx(n), tag="switch")
        for i in ids:
            world.op("prov name " + hx(start), tag="cfg")
            want_ok = i in (1, 2)
            cur = PROVIDER_NAMES[i - 1] if want_ok else start
            metas.append((len(world.ops), {"kind": "switch", "by": "id", "arg": i, "start": start.decode(),
                                           "want": "rc=%d cur=%s id=%d" % (0 if want_ok else 1, cur.decode(), 1 + PROVIDER_NAMES.index(cur))}))
            world.op("prov id %d" % i, tag="switch")
    # --- deterministic algorithms: byte-identical tokens; keys loaded under one provider used under the other
    world.op("clock 4242", tag="cfg")
    s = 400
    # HMAC keys on both sides of the hash block sizes (64 octets for SHA-256, 128 for SHA-384/512), and the rarer key types
    xkeys = dict(pool.keys)
    for n_ in (63, 64, 65, 96, 127, 128, 129, 200):
        xkeys["oct%d" % n_] = K.Key("oct", k=bytes(rng.randrange(256) for _ in range(n_)), bits=8 * n_)
    alg_sel = {}
    for rn_, rk_, ra_ in pool.light(tier == "thorough"):
        if rn_ not in xkeys:
            xkeys[rn_] = rk_
            alg_sel[rn_] = ra_
    # a private OKP JWK that also carries an `x` -- one that belongs to ANOTHER key: the private value says which key this is
    # (under both providers alike); the stray public value is no part of it
    overrides = {}
    for nm_ in ("ed25519", "ed448"):
        if nm_ in pool.keys:
            other_ = K.gen_key("okp", "ED25519" if nm_ == "ed25519" else "ED448", world.ctx.scratch)
            xkeys[nm_ + " with the x of another key"] = pool.keys[nm_]
            overrides[nm_ + " with the x of another key"] = {"x": K.b64u(other_.pub)}
    for load_under in PROVIDER_NAMES:
        world.op("prov name " + hx(load_under), tag="cfg")
        items = {}
        for name, key in xkeys.items():
            items[name] = (world.add_key(s, key, private=True, alg_attr=None, jwk_override=overrides.get(name)),
                           world.add_key(s + 1, key, private=(key.kind == "oct"), alg_attr=None))
            s += 2
        for name, key in xkeys.items():
            priv, pub = items[name]
            for alg in alg_sel.get(name, key.admissible_algs()):
                if alg == "ES256K":
                    continue
                deterministic = alg.startswith(("HS", "RS")) or alg == "EdDSA"
                refs = []
                for gen_under in PROVIDER_NAMES:
                    world.op("prov name " + hx(gen_under), tag="cfg")
                    world.op("bl 0 new", tag="cfg")
                    world.op("bl 0 setkey %d %d %d" % ((K.ALG_ORD[alg],) + priv), tag="cfg")
                    world.op("bl 0 cset json - %s 1" % hx(b'{"a":[1,"x"],"b":{"c":null}}'), tag="cfg")
                    metas.append((len(world.ops), {"kind": "xgen", "key": name, "alg": alg, "loaded": load_under.decode(), "gen": gen_under.decode(),
                                                   "deterministic": deterministic, "ref": refs[0] if refs else None}))
                    refs.append(len(world.ops))
                    world.op("bl 0 gen", tag="gen")
                    for ver_under in PROVIDER_NAMES:
                        world.op("prov name " + hx(ver_under), tag="cfg")
                        world.op("ck 0 new", tag="cfg")
                        world.op("ck 0 setkey %d %d %d" % ((K.ALG_ORD[alg],) + pub), tag="cfg")
                        metas.append((len(world.ops), {"kind": "xverify", "key": name, "alg": alg, "loaded": load_under.decode(),
                                                       "gen": gen_under.decode(), "ver": ver_under.decode()}))
                        world.op("ck 0 verify @last", tag="verify")
                        # ... and with the item that holds the private half (a checker may be given either)
                        world.op("ck 1 new", tag="cfg")
                        world.op("ck 1 setkey %d %d %d" % ((K.ALG_ORD[alg],) + priv), tag="cfg")
                        metas.append((len(world.ops), {"kind": "xverify", "key": name + " (private item)", "alg": alg, "loaded": load_under.decode(),
                                                       "gen": gen_under.decode(), "ver": ver_under.decode()}))
                        world.op("ck 1 verify @last", tag="verify")
                        world.op("prov name " + hx(gen_under), tag="cfg")
    world.op("prov name " + hx(b"openssl"), tag="cfg")
    return metas


def falsify_providers(m, out, eo):
    if m["kind"] == "switch":
        if out != m["want"]:
            return "switch by %s to %r from %s answered `%s`; only an exact name/id of a compiled-in provider may switch: `%s`" % (
                m["by"], m["arg"], m["start"], out, m["want"])
    elif m["kind"] == "xgen":
        if field(out, "tok") == "NULL":
            return "generate with %s/%s (key loaded under %s) failed under %s" % (m["key"], m["alg"], m["loaded"], m["gen"])
        if m["deterministic"] and m["ref"] is not None and field(eo[m["ref"]], "tok") != field(out, "tok"):
            return "tokens for the deterministic algorithm %s (%s) differ between providers" % (m["alg"], m["key"])
    elif m["kind"] == "xverify":
        if field(out, "rc") != "0":
            return "%s/%s token signed under %s is rejected under %s (key loaded under %s)" % (m["key"], m["alg"], m["gen"], m["ver"], m["loaded"])
    return None


def ecdsa_volume_suite(world, pool, tier, rng, curves):
    """C05: many ECDSA signatures made under each provider, verified under the other: short and
    sign-octet-carrying r/s values (1/256 each, 1/500 combined) must occur many times"""
    metas = []
    n = 12000 if tier == "thorough" else 2500
    world.op("clock 9000", tag="cfg")
    s = 500
    for cname, key, alg in curves:
        priv = world.add_key(s, key, private=True, alg_attr=None)
        pub = world.add_key(s + 1, key, private=False, alg_attr=None)
        s += 2
        a = K.ALG_ORD[alg]
        for signer, verifier in (("gnutls", "openssl"), ("openssl", "gnutls")):
            cnt = n if signer == "gnutls" else n // 5
            world.op("prov name " + hx(signer.encode()), tag="cfg")
            world.op("bl 0 new", tag="cfg")
            world.op("bl 0 setkey %d %d %d" % ((a,) + priv), tag="cfg")
            world.op("bl 0 iat 0", tag="cfg")
            world.op("ck 0 new", tag="cfg")
            world.op("ck 0 setkey %d %d %d" % ((a,) + pub), tag="cfg")
            for i in range(cnt):
                world.op("prov name " + hx(signer.encode()), tag="cfg")
                if i % 50 == 0:
                    world.op("bl 0 cset int %s %d 1" % (hx(b"n"), i // 50), tag="cfg")
                metas.append((len(world.ops), {"kind": "gen", "hdr": JL.jenc({"alg": alg, "typ": "JWT"}), "pay": JL.jenc({"n": i // 50}), "alg": alg,
                                               "now": 9000, "seq": "%s signed under %s" % (cname, signer), "prog": None}))
                world.op("bl 0 gen", tag="gen")
                world.op("prov name " + hx(verifier.encode()), tag="cfg")
                metas.append((len(world.ops), {"kind": "verify-generated", "key": cname, "alg": alg, "sign": signer, "verify": verifier, "want_obs": ""}))
                world.op("ck 0 verify @last", tag="verify")
    world.op("prov name " + hx(b"openssl"), tag="cfg")
    return metas


# =====================================================================================
# sizes: every sweep stands on both sides of the usual buffer sizes, and of any size that newly appears in the source
# =====================================================================================
HINTS = []          # set by ./check from tie/fingerprint.py hints (empty on the tree the model was validated against)
STD_SIZES = [15, 16, 17, 31, 32, 33, 63, 64, 65, 127, 128, 129, 191, 192, 193, 255, 256, 257, 511, 512, 513, 1023, 1024, 1025,
             2047, 2048, 2049, 4095, 4096, 4097]


def sizes(base, lo=0, hi=None):
    """`base` plus both sides of every hinted size -- as it stands, as the length of its base64 text and as the number of
    octets such a text decodes to"""
    out = set(base)
    for h in HINTS:
        for v in (h, -(-4 * h // 3), 3 * h // 4):
            out.update(range(v - 2, v + 3))
    return sorted(v for v in out if v >= lo and (hi is None or v <= hi))


# =====================================================================================
# header histories (C02, C11, C13, C19, C01): what one token's header was must not colour the next token
# =====================================================================================
def _hdr_text(before, total, algv, fill=b"x"):
    """header JSON of exactly `total` bytes whose alg VALUE (quotes included) starts at byte offset `before`"""
    pre, mid, post = b'{"typ":"JWT","a":"', b'","alg":', b',"z":"'
    p1 = before - len(pre) - len(mid)
    if p1 < 0:
        return None
    body = pre + b"p" * p1 + mid + algv + post
    p2 = total - len(body) - 2
    if p2 < 0:
        return None
    return body + fill * p2 + b'"}'


def header_history_suite(world, pool, tier, rng):
    """Two tokens in a row on one checker (and on two checkers of one thread): the first is genuine; the second has a header
    of the same length that agrees with the first one's for the first k characters of its base64url text and then names
    another algorithm (or none, or no algorithm of this library), or is the first header with characters appended.
    k and the header length run over both sides of the usual buffer sizes.  The signature of the second token is a correct
    signature, under the checker's key and algorithm, over the second token's own text -- only the header decides.
    Then the first token again."""
    metas = []
    thorough = tier == "thorough"
    b64 = lambda b: K.b64u(b).encode()
    ks = sizes([0, 30, 47, 48, 49, 61, 62] + STD_SIZES + [700, 1366, 3000], lo=0, hi=9000)
    cfgs = []
    for k in ks:
        before = max(26, -(-3 * k // 4))
        cfgs.append((before, before + 34, "first %d characters shared, short tail" % k))
        if k >= 40:
            n = 3 * k // 4
            cfgs.append((n - 22, n, "length %d characters, difference at the end" % k))
            cfgs.append((26, n, "length %d characters, difference at the start" % k))
    if not thorough and len(cfgs) > 110:
        keep = [c for c in cfgs if any(abs(c[1] * 4 // 3 - h) < 8 or abs(c[0] * 4 // 3 - h) < 8 for h in HINTS)]
        cfgs = keep + rng.sample([c for c in cfgs if c not in keep], 110 - min(110, len(keep)))
    payload = seg({"sub": "hh", "exp": 5000})
    world.op("clock 1000", tag="cfg")
    world.op("prov name " + hx(b"openssl"), tag="cfg")
    fam = [("oct32", "HS256", [b'"HS512"', b'"HS384"', b'"hs256"', b'"none"', b'"RS256"', b'"HS256"'])]
    if "rsa2048" in pool.keys:
        fam.append(("rsa2048", "RS256", [b'"PS256"', b'"HS256"', b'"none"', b'"RS512"', b'"RS256"']))
    slot = 960
    for name, alg, others in fam:
        key = pool.keys[name]
        a = K.ALG_ORD[alg]
        it = world.add_key(slot, key, private=(key.kind == "oct"), alg_attr=None)
        slot += 1
        mine = cfgs if key.kind == "oct" else (cfgs if thorough else [c for i, c in enumerate(cfgs) if i % 6 == 0])

        def sign(msg):
            return hs_sig(a, key.k, msg) if key.kind == "oct" else pool.sign(name, alg, msg)

        for ci, (before, total, what) in enumerate(mine):
            h0 = _hdr_text(before, total, b'"%s"' % alg.encode())
            if h0 is None:
                continue
            m0 = b64(h0) + b"." + payload
            t0 = m0 + b"." + sign(m0)
            probes = []
            for ov in others:
                same_alg = ov == b'"%s"' % alg.encode()
                h1 = _hdr_text(before, total, ov, fill=b"y" if same_alg else b"x")
                if h1 is None:
                    continue
                m1 = b64(h1) + b"." + payload
                probes.append(("header names %s" % ov.decode() if not same_alg else "same algorithm, another header member differs",
                               m1 + b"." + sign(m1), same_alg, same_alg))
                if ov == b'"none"':
                    probes.append(("header names none, no signature", m1 + b".", False, False))
            for junk in (b"!", b"A", b"AA", b"AAAAA", b"=", b"\x80", b" ", b"-_", b"e30"):
                hs = b64(h0) + junk
                m1 = hs + b"." + payload
                # a foreign byte or an impossible length must be refused; what the longer text decodes to otherwise (the
                # document read up to a NUL, for one) is the model's business
                probes.append(("first header's text with %r appended" % junk, m1 + b"." + sign(m1), None if py_lenient_b64(hs) is not None else False, False))
            # whole 4-character groups that hold the complete document (padded with blanks), then a last, partial group
            # with a foreign byte in it: a decoder that treats the two parts separately must not lose the refusal
            hpad = h0 + b" " * (-len(h0) % 3)
            for tail in (b"A!", b"!A", b"AA!", b"A!A", b"!AA", b"!!", b"A\x80", b"A A"):
                hs = b64(hpad) + tail
                m1 = hs + b"." + payload
                probes.append(("whole groups holding the document, then the partial group %r" % tail, m1 + b"." + sign(m1), False, False))
            ppad = b'{"sub":"hh","exp":5000}' + b" "
            for tail in (b"A!", b"!AA", b"A\x80"):
                m1 = b64(h0) + b"." + b64(ppad) + tail
                probes.append(("payload: whole groups, then the partial group %r" % tail, m1 + b"." + sign(m1), False, False))
            if not thorough:
                probes = probes[:len(others) + 1][::1 + ci % 2] + rng.sample(probes[len(others) + 1:], 4)
            for pi, (pwhat, t1, may, must) in enumerate(probes):
                two = (ci + pi) % 3 == 0          # the second token goes to another checker of the same thread
                obs = (ci + pi) % 2 == 0
                for c in ((0, 1) if two else (0,)):
                    world.op("ck %d new" % c, tag="cfg")
                    world.op("ck %d setkey %d %d %d" % ((c, a) + it), tag="cfg")
                    if obs:
                        world.op("ck %d setcb hget:json:-" % c, tag="cfg")
                seq = [(0, t0, True, True, "the genuine token"), (1 if two else 0, t1, may, must, pwhat), (0, t0, True, True, "the genuine token again")]
                for c, tok, may_, must_, w in seq:
                    md = {"kind": "verify", "key": name, "alg": alg, "mut": "%s; %s" % (what, w), "must_accept": must_}
                    if may_ is not None:
                        md["may_accept"] = may_
                    metas.append((len(world.ops), md))
                    world.op("ck %d verify %s" % (c, hx(tok)), tag="verify")
    return metas
