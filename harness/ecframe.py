"""C05/C01/C12 -- ECDSA r||s framing: the real provider glue on chosen (r, s) vs the Lean model.

harness/ecframe.c interposes the four sign/verify primitives of OpenSSL and GnuTLS, so that the glue
between them and jwt_sign / jwt_verify_sig (libjwt's own DER <-> fixed-width arithmetic) runs on
integers chosen here: every leading-zero pattern, top bits set and clear, zero, oversized values;
and on signatures of the exact, shorter, longer and zero-extended lengths."""
import json
import os
import subprocess

import keys as K
from lib import SAN_FLAGS, REPO, VERIF, hx

ALGS = [("ES256", 7, "P-256", 256, 32), ("ES384", 8, "P-384", 384, 48), ("ES512", 9, "P-521", 521, 66),
        ("ES256K", 13, "secp256k1", 256, 32)]


def build(ctx):
    exe = os.path.join(ctx.build, "ecframe")
    cmd = ["gcc"] + SAN_FLAGS.split() + ["-I" + os.path.join(REPO, "include"), "-I" + ctx.build,
           os.path.join(VERIF, "harness", "ecframe.c"), os.path.join(ctx.build, "libjwt.a"),
           "-lssl", "-lcrypto", "-ljansson", "-lgnutls", "-o", exe]
    r = subprocess.run(cmd, capture_output=True, text=True)
    if r.returncode != 0:
        raise RuntimeError("ecframe harness build failed:\n" + r.stderr[-2000:])
    return exe


def patterns(rng, w, full):
    """integers below 256^w by shape: k leading zero octets, then a first octet with the top bit set or clear"""
    out = []
    ks = [0, 1, 2, 3, w - 2, w - 1, w] if full else [0, 1, 2, w - 1, w]
    for k in ks:
        if k == w:
            out.append(0)
            continue
        for first in ((0x01, 0x7f, 0x80, 0xff) if full else (0x7f, 0x80, 0xff)):
            rest = rng.randbytes(w - k - 1)
            out.append(int.from_bytes(bytes([first]) + rest, "big"))
    return out


def gen(ctx, deep):
    rng = ctx.rng
    thorough = ctx.tier == "thorough" or deep
    cases = []   # (suite, exec line, model line, meta)
    for name, a, crv, bits, w in ALGS:
        for prov, pc in (("openssl", "o"), ("gnutls", "g")):
            if prov == "gnutls" and name == "ES256K":
                continue
            pats = patterns(rng, w, True)
            pairs = [(r, s) for r in pats for s in pats]
            if not thorough:
                diag = [(r, r ^ 1) for r in pats] + [(pats[i], pats[-1 - i]) for i in range(len(pats))]
                pairs = diag + rng.sample(pairs, 120)
            # oversized values (never produced by a real signer; the OpenSSL path must refuse them)
            over = [(1 << (8 * w)), (1 << (8 * w)) + 5, (0x80 << (8 * w)) + 7, (1 << (8 * (w + 1))) + 1]
            pairs += [(o, 3) for o in over] + [(3, o) for o in over[:2]]
            for _ in range(2000 if thorough else 100):
                pairs.append((rng.getrandbits(8 * w), rng.getrandbits(8 * w)))
            for r, s in pairs:
                cases.append(("ec-frame-sign", "sign %s %d %x %x" % (prov, a, r, s), "ecframe %s %d %d %x %x" % (pc, a, bits, r, s),
                              {"kind": "sign", "prov": prov, "alg": name, "w": w, "r": r, "s": s}))
            # verify side
            sigs = []
            vp = patterns(rng, w, thorough)
            for r in vp:
                for s in (vp if thorough else rng.sample(vp, 4)):
                    sigs.append(r.to_bytes(w, "big") + s.to_bytes(w, "big"))
            good = rng.randbytes(2 * w)
            r0, s0 = good[:w], good[w:]
            for z in (1, 2, 5, 16, 17, 34, 100):               # both halves zero-extended
                sigs.append(bytes(z) + r0 + bytes(z) + s0)
            for n in (1, 2, 2 * w - 2, 2 * w - 1, 2 * w + 1, 2 * w + 2, 63, 64, 65, 95, 96, 97, 131, 132, 133, 4 * w, 512):
                sigs.append(rng.randbytes(n))
                sigs.append(bytes(n))
            sigs.append(good + b"\x00")
            sigs.append(b"\x00" + good)
            sigs.append(good[1:])
            sigs.append(r0[1:] + s0[1:])                         # both halves one octet short
            for _ in range(500 if thorough else 40):
                sigs.append(rng.randbytes(2 * w))
            head = K.b64u(json.dumps({"alg": name, "typ": "JWT"}, separators=(",", ":")).encode()).encode()
            for sg in sigs:
                tok = head + b"." + K.b64u(b"{}").encode() + b"." + K.b64u(sg).encode()
                cases.append(("ec-frame-verify", "verify %s %d %s" % (prov, a, hx(tok)), "ecunframe %s %d %d %s" % (pc, a, bits, hx(sg)),
                              {"kind": "verify", "prov": prov, "alg": name, "w": w, "sig": sg}))
    return cases


def canon_exec(meta, out):
    if meta["kind"] == "sign":
        if not out.startswith("tok="):
            return "fail"
        tok = bytes.fromhex(out[4:])
        try:
            sg = K.b64u_dec(tok.split(b".")[2])
        except Exception:
            return "badtoken"
        return hx(sg)
    if " nocall" in out:
        return "reject" if not out.startswith("rc=0") else "accepted-without-primitive"
    try:
        f = dict(x.split("=") for x in out.split(" "))
        if f["rc"] != "0":
            return "called-but-rc=" + f["rc"]
        return "%x %x" % (int(f["r"], 16), int(f["s"], 16))
    except Exception:
        return out


def falsify(meta, ans):
    """in the property's own terms (RFC 7518 3.4), on the implementation's answer only"""
    w = meta["w"]
    if meta["kind"] == "sign":
        r, s = meta["r"], meta["s"]
        fits = r < (1 << (8 * w)) and s < (1 << (8 * w))
        if fits:
            want = hx(r.to_bytes(w, "big") + s.to_bytes(w, "big"))
            if ans != want:
                return "%s under %s: (r=%x, s=%x) framed as %s, RFC 7518 3.4 form is %s" % (meta["alg"], meta["prov"], r, s, ans, want)
        elif meta["prov"] == "openssl" and ans != "fail":
            return "%s under openssl: oversized integer emitted as %s" % (meta["alg"], ans)
        return None
    sg = meta["sig"]
    if len(sg) == 2 * w:
        want = "%x %x" % (int.from_bytes(sg[:w], "big"), int.from_bytes(sg[w:], "big"))
        if ans != want:
            return "%s under %s: %d-octet signature handed to the library as %s instead of %s" % (meta["alg"], meta["prov"], len(sg), ans, want)
    elif ans != "reject":
        return "%s under %s: a %d-octet signature (the algorithm's form has %d) reached the library as (%s) instead of being rejected" % (
            meta["alg"], meta["prov"], len(sg), 2 * w, ans)
    return None


def run(ctx, model_ok, deep=False):
    exe = build(ctx)
    keylines = []
    for name, a, crv, bits, w in ALGS:
        k = K.gen_key("ec", crv, ctx.scratch)
        keylines.append("key %d %s" % (a, hx(json.dumps(k.jwk(private=True)).encode())))
    cases = gen(ctx, deep)
    rc, eo, err = ctx.run_exec(keylines + [c[1] for c in cases], exe=exe)
    eo = eo[len(keylines):]
    do = ctx.run_driver([c[2] for c in cases]) if model_ok else None
    per = {}
    for i, (suite, el, ml, meta) in enumerate(cases):
        st = per.setdefault(suite, {"n": 0, "outs": set(), "dis": 0, "fal": 0, "samples": [], "shapes": {}})
        st["n"] += 1
        if i >= len(eo):
            continue
        ans = canon_exec(meta, eo[i])
        st["outs"].add(ans[:24])
        shape = "reject/fail" if ans in ("reject", "fail") else "ok"
        st["shapes"][shape] = st["shapes"].get(shape, 0) + 1
        if len(st["samples"]) < 3 and i % 41 == 0:
            st["samples"].append({"op": el[:100], "impl": ans[:100], "model": (do[i][:100] if do else None)})
        f = falsify(meta, ans)
        replay = keylines[[x[1] for x in ALGS].index(int(el.split(" ")[2]))], el
        if f:
            st["fal"] += 1
            if st["fal"] <= 2:
                ctx.violation("falsifier:" + suite, f, replay_lines=["#ecframe"] + list(replay), detail="impl: %s" % eo[i][:300])
        if do is not None and do[i] != ans:
            st["dis"] += 1
            if st["dis"] <= 2 and not f:
                ctx.violation("correspondence:" + suite, "model and implementation disagree on `%s`" % el[:80],
                              replay_lines=["#ecframe"] + list(replay), detail="impl:  %s\nmodel: %s (`%s`)" % (ans, do[i], ml[:120]), no_input=True)
    if rc != 0 or len(eo) != len(cases):
        at = len(eo)
        ctx.violation("sanitizer:ec-frame", "ecframe harness died (rc=%s) on `%s`" % (rc, cases[at][1][:100] if at < len(cases) else "<exit>"),
                      replay_lines=["#ecframe"] + keylines + ([cases[at][1]] if at < len(cases) else []), detail=err[-1500:])
    for suite, st in per.items():
        ctx.add_suite(suite, evaluations=st["n"], distinct_nontrivial=len(st["outs"]),
                      rule="real glue of both providers run on chosen integers / signatures through interposed primitives (harness/ecframe.c); "
                           "distinct = distinct answers; each compared with Jwt.EcFrame and judged against the RFC 7518 3.4 form",
                      exhaustive=False, disagreements=st["dis"], falsified=st["fal"], answers=st["shapes"], samples=st["samples"])


def replay(ctx, lines):
    exe = build(ctx)
    rc, eo, err = ctx.run_exec([l for l in lines if not l.startswith("#")], env={"EXEC_MSG": "1"}, exe=exe)
    for l, o in zip([l for l in lines if not l.startswith("#")], eo):
        print("%s\n  impl: %s" % (l[:200], o[:400]))
    if rc != 0:
        print(err[-1500:])
    return 1
