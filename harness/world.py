"""Two-sided sessions: the same operation script goes to the executor (real library) and to the Lean
driver (model); oracle questions of the model are answered by independent computations."""
import hashlib
import hmac as pyhmac
import json
import re

import jsonlib
import keys as K
from lib import hx, unhx

HASH = {1: hashlib.sha256, 2: hashlib.sha384, 3: hashlib.sha512}


class Op:
    __slots__ = ("ex", "dr", "cmp", "tag", "note")

    def __init__(self, ex, dr=None, cmp=True, tag="", note=None):
        self.ex = ex
        self.dr = ex if dr is None else dr
        self.cmp = cmp
        self.tag = tag
        self.note = note


_JSON_RE = re.compile(r"json:([0-9a-f]+|-)")


def canon_exec(line):
    """JSON *text* printed by the executor -> canonical tree encoding (what the driver prints)"""
    if "json:" not in line:
        return line
    return _JSON_RE.sub(lambda m: "json:" + jsonlib.jenc_of_text(unhx(m.group(1))), line)


def jdec(s):
    """JENC -> python tree"""
    pos = 0

    def val():
        nonlocal pos
        c = s[pos]
        pos += 1
        if c == "n":
            return None
        if c == "t":
            return True
        if c == "f":
            return False
        if c == "i":
            m = re.match(r"-?\d+", s[pos:])
            pos += m.end()
            return int(m.group())
        if c in "rs":
            m = re.match(r"[0-9a-f]+|-", s[pos:])
            pos += m.end()
            b = unhx(m.group())
            return float(b.decode()) if c == "r" else b.decode("utf-8")
        if c == "a":
            pos += 1
            out = []
            while s[pos] != ")":
                if s[pos] == ",":
                    pos += 1
                out.append(val())
            pos += 1
            return out
        if c == "o":
            pos += 1
            out = {}
            while s[pos] != ")":
                if s[pos] == ",":
                    pos += 1
                m = re.match(r"([0-9a-f]+|-)=", s[pos:])
                pos += m.end()
                out[unhx(m.group(1)).decode("utf-8")] = val()
            pos += 1
            return out
        raise ValueError(s)
    return val()


class World:
    def __init__(self, ctx, oracle=None):
        self.ctx = ctx
        self.oracle = oracle
        self.ops = []
        self.key_next_id = 1
        self.items = {}        # (set, idx) -> dict(id, key, private, alg)
        self.id_to = {}        # item id -> (Key, oracle kid or None)
        self.set_count = {}
        self.answers = {}      # need-line -> oracle line
        self.need_rounds = 0
        self.oracle_stats = {"load": 0, "loadstrict": 0, "hmac": 0, "pkv": 0, "dump": 0}
        self.exec_env = None   # extra environment for the executor run of this world

    # ---- script building ----
    def op(self, ex, dr=None, cmp=True, tag="", note=None):
        self.ops.append(Op(ex, dr, cmp, tag, note))

    def add_key(self, s, key, private, alg_attr=None, extra=None, raw_alg=None, jwk_override=None):
        """load one JWK into set `s` on the real side, declare the item on the model side"""
        idx = self.set_count.get(s, 0)
        self.set_count[s] = idx + 1
        jwk = key.jwk(private=private, alg=alg_attr, extra=extra)
        if jwk_override:
            jwk.update(jwk_override)        # another spelling of the same key material (the model is told what it denotes)
        kid = self.key_next_id
        self.key_next_id += 1
        okid = None
        if key.kind != "oct" and self.oracle is not None:
            okid = self.oracle.add_key(key.pem(private))
        self.id_to[kid] = (key, okid)
        self.items[(s, idx)] = {"id": kid, "key": key, "private": private, "alg": alg_attr}
        alg_ord = K.ALG_ORD.get(alg_attr, 15) if alg_attr is not None else 0
        octv = hx(key.k) if key.kind == "oct" else "-"
        priv = 1 if (private or key.kind == "oct") else 0
        self.op("jwks %d load %s" % (s, hx(json.dumps(jwk).encode())),
                "key %d %d id=%d kty=%s alg=%d bits=%d priv=%d oct=%s" % (s, idx, kid, key.kty, alg_ord, key.bits, priv, octv),
                cmp=False, tag="key")
        return (s, idx)

    def keyorc_lines(self, tree):
        """`oracle keyorc` lines for every JWK-shaped object in the document: what the independent
        OpenSSL caller makes of the (independently decoded) key material"""
        from suites import py_lenient_b64 as dec
        out = []
        objs = []
        if isinstance(tree, dict):
            ks = tree.get("keys", None)
            if "keys" not in tree:
                objs = [tree]
            elif isinstance(ks, list):
                objs = [o for o in ks if isinstance(o, dict)]

        def d(o, name):
            v = o.get(name)
            if not isinstance(v, str):
                return None
            try:
                b = dec(v.encode("utf-8"))
            except Exception:
                return None
            return b if b else None
        for o in objs:
            kty = o.get("kty")
            qs = []
            if kty == "RSA":
                n, e = d(o, "n"), d(o, "e")
                comps = [d(o, c) for c in ("d", "p", "q", "dp", "dq", "qi")]
                if n and e:
                    for pss in (0, 1):
                        qs.append("rsa %d %s %s" % (pss, n.hex(), e.hex()))
                        if all(comps):
                            qs.append("rsa %d %s %s %s" % (pss, n.hex(), e.hex(), " ".join(c.hex() for c in comps)))
            elif kty == "EC":
                crv, x, y, dd = o.get("crv"), d(o, "x"), d(o, "y"), d(o, "d")
                if isinstance(crv, str) and x and y:
                    c = crv.encode("utf-8").hex() or "-"
                    qs.append("ec %s %s %s" % (c, x.hex(), y.hex()))
                    if dd:
                        qs.append("ec %s %s %s %s" % (c, x.hex(), y.hex(), dd.hex()))
            elif kty == "OKP":
                crv = o.get("crv")
                if isinstance(crv, str):
                    c = crv.encode("utf-8").hex() or "-"
                    for name, priv in (("d", 1), ("x", 0)):
                        b = d(o, name)
                        if b:
                            qs.append("okp %s %d %s" % (c, priv, b.hex()))
            for q in qs:
                if q not in self.answers:
                    self.answers[q] = self.oracle._ask("fromdata " + q)
                    self.oracle_stats["keyorc"] = self.oracle_stats.get("keyorc", 0) + 1
                out.append("oracle keyorc %s %s" % (q.replace(" ", "+"), self.answers[q]))
        return out

    def load_doc(self, s, text, via="strn", tag="load"):
        """load JWK/JWKS text into set `s` on both sides (model gets the tree + key-material oracle answers)"""
        t = text
        if via in ("str", "create") and t is not None:
            t = t.split(b"\0")[0]
        ok, tree = jsonlib.loads(t, decode_any=True) if t is not None else (False, None)
        if ok:
            for l in self.keyorc_lines(tree):
                self.op("echo", l, cmp=False, tag="oracle")
        if text is None:
            self.op("jwks %d load NULL %s" % (s, via), "echo", cmp=False, tag=tag)
            return ok, tree
        self.op("jwks %d load %s %s" % (s, hx(text), via), "jwks %d load %s" % (s, jsonlib.jenc(tree) if ok else "none"), tag=tag)
        return ok, tree

    # ---- oracle answers ----
    def answer(self, need):
        t = need.split()
        kind = t[1]
        self.oracle_stats[kind] = self.oracle_stats.get(kind, 0) + 1
        if kind in ("load", "loadstrict"):
            ok, tree = jsonlib.loads(unhx(t[2]), reject_dup=(kind == "loadstrict"))
            return "oracle %s %s %s" % (kind, t[2], jsonlib.jenc(tree) if ok else "none")
        if kind == "hmac":
            a = int(t[2])
            mac = pyhmac.new(unhx(t[3]), unhx(t[4]), HASH[a]).digest()
            return "oracle hmac %s %s %s %s" % (t[2], t[3], t[4], hx(mac))
        if kind == "pkv":
            prov, kid, a, m, s = t[2], int(t[3]), int(t[4]), unhx(t[5]), unhx(t[6])
            key, okid = self.id_to[kid]
            if s.startswith(self.PLACEHOLDER + b":"):
                # the model's stand-in for a provider-made signature, tagged with the signing item and algorithm:
                # valid exactly under the same key (private or public half), the same algorithm, when the key may be used with it
                try:
                    skid, salg = (int(x) for x in s[len(self.PLACEHOLDER) + 1:].split(b":"))
                    same = self.id_to[skid][0] is key and salg == a
                except Exception:
                    same = False
                v = okid is not None and same and K.usable(key, K.ORD_ALG[a])
            else:
                v = self.oracle.verify(okid, K.ORD_ALG[a], m, s) if okid is not None else False
            if prov == "gnutls" and a == 13:
                v = False          # the GnuTLS backend documents ES256K as unsupported
            return "oracle pkv %s %s %s %s %s %d" % (t[2], t[3], t[4], t[5], t[6], 1 if v else 0)
        if kind == "dump":
            return "oracle dump %s %s" % (t[2], hx(jsonlib.dumps(jdec(t[2]))))
        raise RuntimeError("unknown need: " + need)

    # ---- running ----
    def run(self, parallel_exec=False, env=None):
        """returns (exec_lines(canonical), driver_lines, crash_info)"""
        env = env or self.exec_env
        ex_lines = [o.ex for o in self.ops]
        dr_lines = [o.dr for o in self.ops]
        rc, eo, err = self.ctx.run_exec(ex_lines, env)
        crash = None
        if rc != 0 or len(eo) != len(ex_lines):
            crash = (len(eo), rc, err)
            eo = eo + ["<crash>"] * (len(ex_lines) - len(eo))
        eo = [canon_exec(l) for l in eo]
        oracle_lines = []
        for rnd in range(12):
            do = self.ctx.run_driver(oracle_lines + dr_lines)[len(oracle_lines):]
            needs = []
            seen = set()
            for l in do:
                if l.startswith("need "):
                    for n in l.split(" | "):
                        if n not in seen:
                            seen.add(n)
                            needs.append(n)
            if not needs:
                break
            self.need_rounds += 1
            for n in needs:
                if n not in self.answers:
                    self.answers[n] = self.answer(n)
                    oracle_lines.append(self.answers[n])
        else:
            raise RuntimeError("oracle loop did not converge: " + str(needs[:3]))
        self.oracle_lines = oracle_lines
        # randomised / provider-made signatures: compared through the independent verifier's verdict
        for i, l in enumerate(do):
            if " sigby=" in l and eo[i] != "<crash>" and eo[i].startswith("tok="):
                eo[i] = self.canon_signed(eo[i], l)
        return eo, do, crash

    PLACEHOLDER = b"SIG-OK"

    def canon_signed(self, ex_line, dr_line):
        sb = dr_line.rsplit(" sigby=", 1)[1]
        kid, a = (int(x) for x in sb.split(":"))
        toks = ex_line.split(" ")
        real = unhx(toks[0][4:])
        if real is None or real.count(b".") != 2:
            return ex_line
        h, p, s = real.split(b".")
        key, okid = self.id_to.get(kid, (None, None))
        try:
            sig = K.b64u_dec(s)
        except Exception:
            return ex_line
        if okid is not None and self.oracle.verify(okid, K.ORD_ALG[a], h + b"." + p, sig):
            self.oracle_stats["sig-verified"] = self.oracle_stats.get("sig-verified", 0) + 1
            if a in (7, 8, 9, 13) and sig[:1] == b"\x00":
                self.oracle_stats["ecdsa-short-r"] = self.oracle_stats.get("ecdsa-short-r", 0) + 1
            if a in (7, 8, 9, 13) and sig[len(sig) // 2:len(sig) // 2 + 1] == b"\x00":
                self.oracle_stats["ecdsa-short-s"] = self.oracle_stats.get("ecdsa-short-s", 0) + 1
            toks[0] = "tok=" + hx(h + b"." + p + b"." + K.b64u(self.PLACEHOLDER + b":%d:%d" % (kid, a)).encode())
            return " ".join(toks) + " sigby=" + sb
        return ex_line


# ---- token helpers (independent construction) ----
def seg(obj_or_bytes):
    b = obj_or_bytes if isinstance(obj_or_bytes, (bytes, bytearray)) else json.dumps(obj_or_bytes, separators=(",", ":")).encode()
    return K.b64u(bytes(b)).encode()


def hs_sig(alg_ord, key_bytes, msg):
    return K.b64u(pyhmac.new(key_bytes, msg, HASH[alg_ord]).digest()).encode()
