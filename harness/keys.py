"""Key material for the suites: generated with the `openssl` CLI, turned into JWK by this file's own
DER reader/JWK writer (independent of libjwt's key2jwk), handed to the oracle as PEM."""
import base64
import json
import os
import subprocess
import threading

ALG_ORD = {"none": 0, "HS256": 1, "HS384": 2, "HS512": 3, "RS256": 4, "RS384": 5, "RS512": 6, "ES256": 7, "ES384": 8,
           "ES512": 9, "PS256": 10, "PS384": 11, "PS512": 12, "ES256K": 13, "EdDSA": 14, "INVAL": 15}
ORD_ALG = {v: k for k, v in ALG_ORD.items()}
KTY_ORD = {"none": 0, "ec": 1, "rsa": 2, "okp": 3, "oct": 4}


FAMILY = {"HS256": "oct", "HS384": "oct", "HS512": "oct", "RS256": "rsa", "RS384": "rsa", "RS512": "rsa",
          "PS256": "rsa", "PS384": "rsa", "PS512": "rsa", "ES256": "ec", "ES384": "ec", "ES512": "ec",
          "ES256K": "ec", "EdDSA": "okp"}
EC_BITS = {"ES256": 256, "ES256K": 256, "ES384": 384, "ES512": 521}
HS_MIN = {"HS256": 32, "HS384": 48, "HS512": 64}


def usable(key, alg):
    """may `alg` be evaluated with `key` at all, per the property (family + strength floor)?"""
    if alg not in FAMILY or FAMILY[alg] != key.kty:
        return False
    if key.kind == "oct":
        return len(key.k) >= HS_MIN[alg]
    if key.kty == "rsa":
        return key.bits >= 2048
    if key.kty == "ec":
        return key.bits == EC_BITS[alg]
    return key.bits in (256, 456)


def b64u(b):
    return base64.urlsafe_b64encode(b).rstrip(b"=").decode()


def b64u_dec(s):
    if isinstance(s, str):
        s = s.encode()
    return base64.urlsafe_b64decode(s + b"=" * (-len(s) % 4))


# ---- minimal DER reader ----
def der_read(b, i=0):
    tag = b[i]
    l = b[i + 1]
    i += 2
    if l & 0x80:
        n = l & 0x7F
        l = int.from_bytes(b[i:i + n], "big")
        i += n
    return tag, b[i:i + l], i + l


def der_seq(b):
    out, i = [], 0
    while i < len(b):
        tag, val, i = der_read(b, i)
        out.append((tag, val))
    return out


def der_int(v):
    return int.from_bytes(v, "big", signed=False)


def int_bytes(n, width=None):
    l = max(1, (n.bit_length() + 7) // 8)
    return n.to_bytes(width or l, "big")


OID_CURVES = {
    bytes.fromhex("2a8648ce3d030107"): ("P-256", 32, 256),
    bytes.fromhex("2b81040022"): ("P-384", 48, 384),
    bytes.fromhex("2b81040023"): ("P-521", 66, 521),
    bytes.fromhex("2b8104000a"): ("secp256k1", 32, 256),
    # not a JOSE curve: a key the library imports (it hands unknown curve names to the provider) and no ES* algorithm may use
    bytes.fromhex("2b240303020801010d"): ("brainpoolP512r1", 64, 512),
}
OID_ED25519 = bytes.fromhex("2b6570")
OID_ED448 = bytes.fromhex("2b6571")


def _run(args, inp=None):
    r = subprocess.run(args, input=inp, capture_output=True)
    if r.returncode != 0:
        raise RuntimeError("%s failed: %s" % (args, r.stderr.decode()[-300:]))
    return r.stdout


class Key:
    """kind: oct | rsa | rsapss | ec | okp ; jwk(private=bool, **extra) -> dict"""

    def __init__(self, kind, **kw):
        self.kind = kind
        self.__dict__.update(kw)

    @property
    def kty(self):
        return {"oct": "oct", "rsa": "rsa", "rsapss": "rsa", "ec": "ec", "okp": "okp"}[self.kind]

    def jwk(self, private=True, alg=None, extra=None, pad=True):
        if self.kind == "oct":
            d = {"kty": "oct", "k": b64u(self.k)}
        elif self.kind in ("rsa", "rsapss"):
            d = {"kty": "RSA", "n": b64u(int_bytes(self.n)), "e": b64u(int_bytes(self.e))}
            if private:
                for name in ("d", "p", "q", "dp", "dq", "qi"):
                    d[name] = b64u(int_bytes(getattr(self, name)))
        elif self.kind == "ec":
            w = self.width if pad else None
            d = {"kty": "EC", "crv": self.crv, "x": b64u(int_bytes(self.x, w)), "y": b64u(int_bytes(self.y, w))}
            if private:
                d["d"] = b64u(int_bytes(self.d, w))
        else:
            d = {"kty": "OKP", "crv": self.crv, "x": b64u(self.pub)}
            if private:
                d["d"] = b64u(self.priv)
        if alg is not None:
            d["alg"] = alg
        if extra:
            d.update(extra)
        return d

    def pem(self, private=True):
        return self.pem_priv if private else self.pem_pub

    def admissible_algs(self):
        if self.kind == "oct":
            return [a for a, n in (("HS256", 32), ("HS384", 48), ("HS512", 64)) if len(self.k) >= n]
        if self.kind in ("rsa", "rsapss"):
            return ["RS256", "RS384", "RS512", "PS256", "PS384", "PS512"] if self.kind == "rsa" else ["PS256", "PS384", "PS512"]
        if self.kind == "ec":
            return {"P-256": ["ES256"], "secp256k1": ["ES256K"], "P-384": ["ES384"], "P-521": ["ES512"]}.get(self.crv, [])
        return ["EdDSA"]


def _parse_pkcs8(der):
    tag, body, _ = der_read(der)
    parts = der_seq(body)
    algid = der_seq(parts[1][1])
    oid = algid[0][1]
    params = algid[1] if len(algid) > 1 else None
    inner = parts[2][1]
    return oid, params, inner


def rsa_private_numbers(pem):
    """(n, e, d, p, q, dp, dq, qi) of a PKCS#8 or PKCS#1 RSA private key in PEM form, or None"""
    import base64 as _b
    try:
        txt = pem.decode() if isinstance(pem, (bytes, bytearray)) else pem
        head = txt.split("-----")[1]
        body = "".join(l for l in txt.splitlines() if l and not l.startswith("-----"))
        der = _b.b64decode(body)
        if "RSA PRIVATE KEY" in head:
            inner = der
        elif "PRIVATE KEY" in head:
            _, _, inner = _parse_pkcs8(der)
        else:
            return None
        _, seq, _ = der_read(inner)
        ints = [der_int(v) for t, v in der_seq(seq)]
        return tuple(ints[1:9])
    except Exception:
        return None


CACHE_DIR = os.path.join(os.path.dirname(os.path.abspath(__file__)), "keycache")


def cached_key(kind, param, workdir="/tmp"):
    """keys of unusual sizes that are slow to make (RSA-8192 takes a minute): made once with `openssl genpkey`, kept as
    PEM files in harness/keycache/ and parsed like a fresh one.  A size that is not in the cache is generated."""
    path = os.path.join(CACHE_DIR, "%s_%s.pem" % (kind, param))
    if os.path.exists(path):
        return gen_key(kind, param, workdir, pem=open(path, "rb").read())
    return gen_key(kind, param, workdir)


def gen_key(kind, param=None, workdir="/tmp", pem=None):
    path = os.path.join(workdir, "k_%s_%s_%d.pem" % (kind, param, os.getpid()))
    if kind == "oct":
        return Key("oct", k=os.urandom(param), bits=param * 8)
    if pem is not None:
        open(path, "wb").write(pem)
    elif kind == "rsa":
        _run(["openssl", "genpkey", "-algorithm", "RSA", "-pkeyopt", "rsa_keygen_bits:%d" % param, "-out", path])
    elif kind == "rsapss":
        _run(["openssl", "genpkey", "-algorithm", "RSA-PSS", "-pkeyopt", "rsa_keygen_bits:%d" % param, "-out", path])
    elif kind == "ec":
        _run(["openssl", "genpkey", "-algorithm", "EC", "-pkeyopt", "ec_paramgen_curve:%s" % param,
              "-pkeyopt", "ec_param_enc:named_curve", "-out", path])
    elif kind == "okp":
        _run(["openssl", "genpkey", "-algorithm", param, "-out", path])
    pem_priv = open(path, "rb").read()
    pem_pub = _run(["openssl", "pkey", "-in", path, "-pubout"])
    der = _run(["openssl", "pkcs8", "-topk8", "-nocrypt", "-in", path, "-outform", "DER"])
    pubder = _run(["openssl", "pkey", "-in", path, "-pubout", "-outform", "DER"])
    os.unlink(path)
    oid, params, inner = _parse_pkcs8(der)
    if kind in ("rsa", "rsapss"):
        _, body, _ = der_read(inner)
        ints = [der_int(v) for t, v in der_seq(body)]
        _, n, e, d, p, q, dp, dq, qi = ints[:9]
        return Key(kind, n=n, e=e, d=d, p=p, q=q, dp=dp, dq=dq, qi=qi, bits=n.bit_length(), pem_priv=pem_priv, pem_pub=pem_pub)
    if kind == "ec":
        crv, width, bits = OID_CURVES[params[1]]
        _, body, _ = der_read(inner)
        parts = der_seq(body)
        d = der_int(parts[1][1])
        # public point from the SubjectPublicKeyInfo: BIT STRING 00 04 X Y
        _, spki, _ = der_read(pubder)
        bitstr = der_seq(spki)[1][1]
        pt = bitstr[1:]
        assert pt[0] == 4
        x = der_int(pt[1:1 + width])
        y = der_int(pt[1 + width:1 + 2 * width])
        return Key("ec", crv=crv, width=width, bits=bits, d=d, x=x, y=y, pem_priv=pem_priv, pem_pub=pem_pub)
    if kind == "okp":
        _, priv, _ = der_read(inner)
        _, spki, _ = der_read(pubder)
        pub = der_seq(spki)[1][1][1:]
        crv = "Ed25519" if oid == OID_ED25519 else "Ed448"
        return Key("okp", crv=crv, priv=priv, pub=pub, bits=256 if crv == "Ed25519" else 456, pem_priv=pem_priv, pem_pub=pem_pub)
    raise ValueError(kind)


class Oracle:
    """persistent oracle process (harness/oracle.c)"""

    def __init__(self, exe):
        self.p = subprocess.Popen([exe], stdin=subprocess.PIPE, stdout=subprocess.PIPE, text=True, bufsize=1)
        self.nkeys = 0
        self.calls = 0
        self.lock = threading.Lock()

    def _ask(self, line):
        with self.lock:
            self.p.stdin.write(line + "\n")
            self.p.stdin.flush()
            self.calls += 1
            return self.p.stdout.readline().strip()

    def add_key(self, pem):
        with self.lock:
            kid = self.nkeys
            self.nkeys += 1
        if self._ask("key %d %s" % (kid, pem.hex())) != "ok":
            raise RuntimeError("oracle refused key")
        return kid

    def verify(self, kid, alg, msg, sig):
        return self._ask("verify %d %s %s %s" % (kid, alg, msg.hex() or "-", sig.hex() or "-")) == "1"

    def sign(self, kid, alg, msg):
        r = self._ask("sign %d %s %s" % (kid, alg, msg.hex() or "-"))
        return None if r in ("err", "badop") else (b"" if r == "-" else bytes.fromhex(r))

    def sign_foreign(self, kid, alg, msg, width):
        """ECDSA with the digest of `alg` by a key of another curve, r||s at `width` octets each (None if the oracle refuses)"""
        r = self._ask("xsign %d %s %s %d" % (kid, alg, msg.hex() or "-", width))
        return None if r in ("err", "badop", "") else bytes.fromhex(r)

    def close(self):
        try:
            self.p.stdin.close()
            self.p.wait(timeout=5)
        except Exception:
            self.p.kill()


def build_oracle(ctx):
    exe = os.path.join(ctx.scratch, "oracle")
    here = os.path.dirname(os.path.abspath(__file__))
    r = subprocess.run(["gcc", "-O1", "-g", os.path.join(here, "oracle.c"), "-lcrypto", "-o", exe], capture_output=True, text=True)
    if r.returncode != 0:
        raise RuntimeError("oracle build failed: " + r.stderr[-800:])
    return exe
