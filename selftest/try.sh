#!/bin/bash
# try.sh PATCH_DIR PROP [tier]: run one check against a scratch copy of /repo HEAD with PATCH_DIR/patch.diff applied
# (no repository tests, no demonstration: for iterating on a suite; selftest/seeded.py does the full confirmation)
set -e
HERE="$(cd "$(dirname "$0")/.." && pwd)"
w=$(mktemp -d /tmp/try_XXXXXX)
trap 'rm -rf "$w"' EXIT
mkdir "$w/mut"; git -C /repo archive HEAD | tar -x -C "$w/mut"
P="$(realpath "$1")/patch.diff"; (cd "$w/mut" && git init -q . && git apply "$P")
cp -r "$HERE/lean" "$w/lean"
set +e
VERIF_REPO="$w/mut" VERIF_LEAN_DIR="$w/lean" VERIF_EVIDENCE_DIR="$w/ev" "$HERE/check" "$2" --tier "${3:-quick}" 2>&1 | grep -E "^\[|VIOLATION|->|CHECK-ERROR|Error" | cut -c1-400 | head -${TRY_LINES:-12}
