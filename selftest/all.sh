#!/bin/bash
# run every claimed check's quick command on the current tree at the given seeds (default 1): any VIOLATION or non-zero exit is listed
cd "$(dirname "$0")/.."
SEEDS=${*:-1}
fail=0
# the fingerprints must describe the tree the model was validated against (refresh after every fix: commit in /repo:
#   python3 tie/fingerprint.py snapshot /repo > tie/fingerprints.json)
d=$(python3 tie/fingerprint.py diff /repo tie/fingerprints.json)
if [ -n "$d" ]; then echo "STALE tie/fingerprints.json:"; echo "$d"; fail=1; fi
h=$(python3 tie/fingerprint.py hints /repo tie/constants.json)
if [ "$h" != "[]" ]; then echo "STALE tie/constants.json (python3 tie/fingerprint.py constants /repo > tie/constants.json): $h"; fail=1; fi
for s in $SEEDS; do
  for p in $(python3 -c "import json; print(' '.join(c['property_id'] for c in json.load(open('MANIFEST.json'))['checks']))"); do
    out=$(VERIF_SEED=$s ./check $p --tier quick 2>&1); rc=$?
    line=$(echo "$out" | grep -E "^\[$p\]" | tail -1)
    echo "seed=$s $line rc=$rc"
    if [ $rc -ne 0 ] || echo "$out" | grep -q "^VIOLATION"; then fail=1; echo "$out" | grep -E "VIOLATION|->" | head -4; fi
  done
done
exit $fail
