#!/bin/bash
# Build a libjwt tree (default /repo) with its own test suite in a scratch dir and run it.
# usage: repo_tests.sh [SRC_DIR]   -> prints "tests: N passed, M failed", exit 0 iff all pass
set -u
SRC=${1:-/repo}
B=$(mktemp -d /tmp/repo_tests.XXXXXX)
trap 'rm -rf "$B"' EXIT
cmake -S "$SRC" -B "$B" -G Ninja -DWITH_TESTS=ON -DWITH_GNUTLS=ON -DCMAKE_BUILD_TYPE=RelWithDebInfo -DCMAKE_C_FLAGS=-Wno-error >"$B/cmake.log" 2>&1 || { tail -20 "$B/cmake.log"; exit 2; }
ninja -C "$B" >"$B/ninja.log" 2>&1 || { tail -30 "$B/ninja.log"; exit 2; }
ctest --test-dir "$B" -j8 --timeout 900 --output-junit "$B/junit.xml" >"$B/ctest.log" 2>&1
rc=$?
tail -15 "$B/ctest.log"
python3 - "$B/junit.xml" <<'PY'
import sys, xml.etree.ElementTree as ET
r = ET.parse(sys.argv[1]).getroot()
print("ctest programs: %s tests, %s failures" % (r.get("tests"), r.get("failures")))
PY
exit $rc
