#!/bin/bash
# usage: mutant.sh PATCH PROP [tier]   -- apply PATCH to a scratch copy of /repo, run ./check PROP against it
# with an isolated copy of lean/ (so generated facts of the mutant never touch /verif/lean), clean up.
set -u
PATCH=$(realpath "$1"); PROP=$2; TIER=${3:-quick}
HERE=$(cd "$(dirname "$0")/.." && pwd)
W=$(mktemp -d /tmp/mutant.XXXXXX)
trap 'rm -rf "$W"' EXIT
mkdir -p "$W/repo" && (cd /repo && git archive HEAD) | tar -x -C "$W/repo"
(cd "$W/repo" && git init -q . && git apply "$PATCH") || { echo "PATCH DOES NOT APPLY"; exit 3; }
cp -r "$HERE/lean" "$W/lean"
VERIF_REPO="$W/repo" VERIF_LEAN_DIR="$W/lean" VERIF_EVIDENCE_DIR="$W/evidence" "$HERE/check" "$PROP" --tier "$TIER"
rc=$?
# keep the evidence/replay of the real tree untouched: mutant runs write to $W/evidence
for f in "$W"/evidence/replay/*.txt; do [ -f "$f" ] && { echo "--- $f"; head -12 "$f" | cut -c1-300; }; done
echo "mutant check exit=$rc"
exit $rc
