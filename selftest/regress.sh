#!/bin/bash
# every stored seeded change is run through its property's quick check again (selftest/try.sh, 7 at a time, about 80 minutes):
# usage: selftest/regress.sh [RESULT_FILE]   -- lines "DETECTED <id>" / "MISSED <id> :: <last lines of the check>"
cd "$(dirname "$0")/.."
res=${1:-/tmp/regress_result.txt}
ls seeded | while read id; do echo "$id ${id:0:3}"; done |
  xargs -P 7 -L 1 bash -c 'out=$(selftest/try.sh seeded/$0 $1 2>&1 | tail -n 2 | tr "\n" " "); if echo "$out" | grep -q "FAIL"; then echo "DETECTED $0"; else echo "MISSED $0 :: $out"; fi' > "$res" 2>&1
echo "detected: $(grep -c DETECTED "$res") of $(ls seeded | wc -l)"; grep MISSED "$res"
