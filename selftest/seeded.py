#!/usr/bin/env python3
"""Confirm a seeded breaking change and run the checks against it.

usage: seeded.py SRC_DIR ID [PROP ...]     SRC_DIR holds patch.diff, demo.c, run.sh, meta.json
Steps (all on scratch copies outside /repo and /verif, removed afterwards):
  1. the patch applies to /repo HEAD;  2. the repository's own test suite still passes with it;
  3. the demonstration passes on the reference tree and fails on the patched tree;
  4. each PROP's quick check is run against the patched tree (isolated lean/ copy, VERIF_REPO).
On success the change is stored as /verif/seeded/ID/ with what was run recorded in meta.json."""
import json
import os
import shutil
import subprocess
import sys
import tempfile

HERE = os.path.dirname(os.path.dirname(os.path.abspath(__file__)))


def sh(cmd, **kw):
    return subprocess.run(cmd, shell=True, capture_output=True, text=True, errors="replace", **kw)


def main():
    src, sid = sys.argv[1], sys.argv[2]
    props = sys.argv[3:]
    meta = json.load(open(os.path.join(src, "meta.json")))
    if not props:
        props = [meta.get("property", sid[:3])]
    w = tempfile.mkdtemp(prefix="seeded_")
    ran = {}
    try:
        ref, mut = os.path.join(w, "ref"), os.path.join(w, "mut")
        for d in (ref, mut):
            os.makedirs(d)
            sh("git -C /repo archive HEAD | tar -x -C %s" % d)
        r = sh("git init -q . && git apply %s" % os.path.join(os.path.abspath(src), "patch.diff"), cwd=mut)
        ran["patch_applies"] = r.returncode == 0
        if r.returncode != 0:
            print("PATCH DOES NOT APPLY", r.stderr[-300:])
            return 2
        r = sh("%s/selftest/repo_tests.sh %s" % (HERE, mut))
        ran["repo_tests_pass_with_patch"] = r.returncode == 0
        ran["repo_tests_tail"] = r.stdout.strip().splitlines()[-1:] if r.stdout else []
        run_sh = os.path.join(os.path.abspath(src), "run.sh")
        r1 = sh("bash %s %s" % (run_sh, ref), timeout=900)
        r2 = sh("bash %s %s" % (run_sh, mut), timeout=900)
        ran["demo_on_reference_exit"] = r1.returncode
        ran["demo_on_patched_exit"] = r2.returncode
        ran["demo_patched_tail"] = (r2.stdout + r2.stderr).strip().splitlines()[-3:]
        confirmed = ran["repo_tests_pass_with_patch"] and r1.returncode == 0 and r2.returncode != 0
        ran["confirmed"] = confirmed
        print("confirmed=%s tests=%s demo ref=%d patched=%d" % (confirmed, ran["repo_tests_pass_with_patch"], r1.returncode, r2.returncode))
        ran["checks"] = {}
        for p in props:
            lean = os.path.join(w, "lean_" + p)
            shutil.copytree(os.path.join(HERE, "lean"), lean)
            ev = os.path.join(w, "ev_" + p)
            env = dict(os.environ, VERIF_REPO=mut, VERIF_LEAN_DIR=lean, VERIF_EVIDENCE_DIR=ev)
            r = subprocess.run([os.path.join(HERE, "check"), p, "--tier", "quick"], capture_output=True, text=True, errors="replace", env=env, timeout=3600)
            viol = [l for l in r.stdout.splitlines() if l.startswith("VIOLATION")]
            first = ""
            rp = os.path.join(ev, "replay", p + "_0.txt")
            if os.path.exists(rp):
                first = " | ".join(l.strip()[:220] for l in open(rp).read().splitlines()[1:3])
            ran["checks"][p] = {"exit": r.returncode, "violations": len(viol), "no_failing_input": sum("no-failing-input-found" in v for v in viol),
                                "first": first}
            print("  check %s: exit=%d violations=%d %s" % (p, r.returncode, len(viol), first[:200]))
            shutil.rmtree(lean, ignore_errors=True)
        if confirmed:
            dst = os.path.join(HERE, "seeded", sid)
            os.makedirs(dst, exist_ok=True)
            for f in ("patch.diff", "demo.c", "demo.sh", "run.sh"):
                if os.path.exists(os.path.join(src, f)):
                    shutil.copy(os.path.join(src, f), dst)
            meta["verified_by_us"] = ran
            meta["detected_by"] = [p for p, c in ran["checks"].items() if c["exit"] == 1]
            json.dump(meta, open(os.path.join(dst, "meta.json"), "w"), indent=1)
        return 0 if confirmed else 1
    finally:
        shutil.rmtree(w, ignore_errors=True)


if __name__ == "__main__":
    sys.exit(main())
